//! ARENA dialect: pointer code of node.rs / raw / traverser translated to an index arena `Heap`.
//!
//! Template directives (specs/<unit>.vrs):
//!     //@FNV <fn key>           like //@FN, but VERBATIM dialect: the body is the real text (structured only for anchoring)
//!     //@FN <fn key>            start of a function block; the lines up to //@BODY are the hand-written
//!                               signature and contract (copied verbatim)
//!     //@BODY                   the translated body of the real function is emitted here
//!     //@AT <anchor>            following lines (until the next //@ directive) are spliced at the anchor
//!     //@LOOP <k>               following lines are the loop annotations (invariant/decreases) of loop k
//!     //@END                    end of the function block
//! Anchors: entry | exit | preloop:<k> (before the header of loop k) | postloop:<k> (after its closing brace) | before:[<match arm pattern>]<call>#<k> (ordinal counted inside that arm only) | before:<call>#<k> | after:<call>#<k> | ret#<k> | loophead:<k> | loopend:<k>
//!   <call> is the name of a translated call (h.set_left -> set_left, rotate_left, ...), <k> its ordinal in
//!   source order within the function.  An anchor that no longer exists is a lost anchor (never an alarm).
//!
//! Rewrite rules (complete list; anything else is an unsupported construct):
//!   R1  Shared<'g, BinEntry<K,V>> values are `Ptr` (index, 0 = null); Shared::null() -> NULL; x.is_null() -> (x == NULL)
//!   R2  treenode!(x), unsafe { TreeNode::get_tree_node(x) }, Self::get_tree_node(x), unsafe { x.deref() }.as_tree_node().unwrap()
//!       denote the node behind x:  `let d = <that>` -> `let d: Ptr = x;`
//!   R3  <node>.F.load(ORD[, guard]) -> h.F(<ptr>)   for F in parent,left,right,prev,red;  <node>.node.next.load -> h.next(..),
//!       <node>.node.value.load -> h.value(..), <node>.node.hash -> h.hash(..), &<node>.node.key / <node>.node.key -> h.key(..)
//!   R4  <node>.F.store(v, ORD) -> h.set_F(<ptr>, v)
//!   R5  self.root / self.first (TreeBin) .load -> h.root() / h.first(); .store(v) -> h.set_root(v) / h.set_first(v)
//!   R6  &<node>.left / &<node>.right as a value -> fref(<ptr>, LEFT|RIGHT);  (<match yielding such a ref>).load(..) -> h.load_ref(..)
//!   R7  Self::f(a.., guard) / TreeNode::f(a.., guard) -> f(h, a..)   (guard and collector arguments dropped)
//!   R8  Shared::boxed(BinEntry::TreeNode(TreeNode::new(hash,key,value,next,parent)), collector) -> h.alloc_tree_node(hash,key,value,next,parent)
//!       with Atomic::from(x) -> x, Atomic::null() -> NULL
//!   R9  guard.retire_shared(<node>.node.value.load(..)) -> h.retire_value(<ptr>);  guard.retire_shared(x) -> h.retire(x)
//!   R10 unreachable!(..) -> { assert(false); loop invariant false decreases 0int { } }  (obligation: proved unreachable; still diverging);  debug_assert!(..) and `if cfg!(debug_assertions) {..}` removed
//!   R11 self.lock_root(..) / self.unlock_root() removed (sequential semantics)
//!   R12 key comparisons: keys are u64; `.borrow()` and `&`/`*` on keys dropped; a.cmp(&b) kept; o.then(p) -> ord_then(o, p)
//!   R13 `let x: Shared<..>;` (uninitialised) -> `let mut x: Ptr = NULL;`
//!   R14 TreeBin { root: Atomic::from(r), first: Atomic::from(b), .. } -> h.make_bin(r, b)
//!   R16 an argument of a heap-mutating call that itself reads the heap is evaluated into a temporary first
//!   OWN rules (teardown code, templates with //@DIALECT OWN): R17 let-else on a Box's value -> h.as_<kind>(ptr) (the else branch is the
//!       obligation kind == K); R18 `let _ = e;` -> `e;`; R19 X.into_box() -> h.free(X) / h.free_value(node); R20 the for loop over the
//!       taken bins -> indexed while loop; R21 slot.load(..) -> slot; R22 match **entry -> match h.kind(entry); R23 unsafe { x.deref() } -> x;
//!       R24 Guard::unprotected() dropped; R25 obj.F.swap(v) -> h.swap_F(obj, v); R26 drop(tree_bin) -> treebin_drop(h, tree_bin);
//!       `self` -> `this`
//!   R15 `let x = loop { .. break v; .. }` / `p = match .. {..}.load(..)`: kept structurally (Verus supports them)
use crate::emit::{sha256_hex, toks};
use crate::index::{FnInfo, SrcIndex};
use std::collections::BTreeMap;
use syn::spanned::Spanned;

pub struct Line {
    pub ind: usize,
    pub text: String,
    pub src_line: usize,
    /// simple statement (anchors before/after refer to it) vs structural line
    pub simple: bool,
    pub marker: Option<String>,
    /// innermost enclosing statement-level match arm pattern ("" outside any arm): anchors may be scoped to it
    pub ctx: String,
}

pub struct Tx<'a> {
    pub f: &'a FnInfo,
    pub lines: Vec<Line>,
    pub errors: Vec<String>,
    /// locals that alias a node pointer (R2)
    pub aliases: Vec<String>,
    pub loop_count: usize,
    pub ret_count: usize,
    pub self_is_bin: bool,
    /// statements hoisted out of the current one (R16)
    pub pre: Vec<String>,
    pub tmp_count: usize,
    /// VERBATIM dialect (//@FNV): statements are structured for anchoring but every expression is the real text
    pub verbatim: bool,
    /// OWN rules (teardown code): `self` of a TreeBin/Table method is the arena object `this`
    pub self_ptr: bool,
    pub ctx: Vec<String>,
    pub lock_vars: Vec<String>,
    pub value_vars: Vec<String>,
    /// OPS rules (map operations on the bin-level arena; template with //@DIALECT OPS): R27..R36
    pub ops: bool,
    /// WRAP rules (forwarding wrappers; template with //@DIALECT WRAP = OPS + R44/R45)
    pub wrap: bool,
    /// R46: `let link = if c { &mut A } else { &mut B };` — (name, translated c, A, B); `*link = E(*link)` becomes a branch on c
    pub link_alias: Option<(String, String, String, String)>,
    pub link_subst: Option<String>,
    /// R27: `X = loop { .. break V; .. }` is emitted as `loop { .. X = V; break; .. }` (Verus has no break-with-value)
    pub break_targets: Vec<Option<String>>,
    /// //@ARMBODY <Kind::K>: the body of the statement-level entry-match arm with that pattern is replaced by the given lines
    /// (the arm is under contract elsewhere as an extracted block, //@FNA)
    pub arm_bodies: BTreeMap<String, Vec<String>>,
    pub arm_bodies_used: Vec<String>,
    /// //@RET <expr>: value returned where the extracted block leaves through a `continue` of the enclosing loop
    pub fna_ret: Option<String>,
}

fn path_str(p: &syn::Path) -> String {
    p.segments.iter().map(|s| s.ident.to_string()).collect::<Vec<_>>().join("::")
}

fn is_drop_arg(e: &syn::Expr) -> bool {
    // guard / collector arguments
    let s = toks(e);
    let c = s.replace(' ', "");
    s == "guard" || s == "collector" || s == "&self.collector" || s == "self.guard" || s == "&guard" || c.ends_with(".guard") || c == "our_guard" || c == "their_guard"
}

impl<'a> Tx<'a> {
    fn err(&mut self, what: &str, sp: proc_macro2::Span) {
        self.errors.push(format!("unsupported construct in {} ({}:{}): {}", self.f.key, self.f.file, sp.start().line, what));
    }
    fn push(&mut self, ind: usize, text: String, src_line: usize, simple: bool) {
        let pre = std::mem::take(&mut self.pre);
        for p in pre {
            self.lines.push(Line { ind, text: p, src_line, simple: true, marker: None, ctx: self.ctx.last().cloned().unwrap_or_default() });
        }
        self.lines.push(Line { ind, text, src_line, simple, marker: None, ctx: self.ctx.last().cloned().unwrap_or_default() });
    }
    /// R16: an argument that itself uses the heap is evaluated into a temporary first (same evaluation order;
    /// needed because the arena is passed as `&mut Heap` where the real code uses interior mutability)
    fn hoist(&mut self, v: String) -> String {
        if v.contains("h.") || v.contains("(h,") || v.contains("(h)") {
            self.tmp_count += 1;
            let t = format!("tmp{}", self.tmp_count);
            self.pre.push(format!("let {} = {};", t, v));
            t
        } else {
            v
        }
    }
    fn mark(&mut self, ind: usize, marker: String) {
        self.lines.push(Line { ind, text: String::new(), src_line: 0, simple: false, marker: Some(marker), ctx: self.ctx.last().cloned().unwrap_or_default() });
    }

    /// the pointer denoted by a "node" expression (R2)
    fn node_ptr(&mut self, e: &syn::Expr) -> Option<String> {
        match e {
            syn::Expr::Paren(p) => self.node_ptr(&p.expr),
            syn::Expr::Reference(r) => self.node_ptr(&r.expr),
            syn::Expr::Path(p) => {
                let n = p.path.get_ident()?.to_string();
                if n == "self" {
                    return None;
                }
                Some(n)
            }
            syn::Expr::Macro(m) if m.mac.path.is_ident("treenode") => {
                let inner: syn::Expr = syn::parse2(m.mac.tokens.clone()).ok()?;
                Some(self.expr(&inner))
            }
            // <tree node>.node: the entry part of a TreeNode is the same arena object
            syn::Expr::Field(f) if matches!(&f.member, syn::Member::Named(i) if i == "node") => self.node_ptr(&f.base),
            syn::Expr::Unsafe(u) => match u.block.stmts.as_slice() {
                [syn::Stmt::Expr(inner, None)] => self.node_ptr(inner),
                _ => None,
            },
            syn::Expr::Call(c) => {
                if let syn::Expr::Path(p) = &*c.func {
                    let s = path_str(&p.path);
                    if (s == "TreeNode::get_tree_node" || s == "Self::get_tree_node") && c.args.len() == 1 {
                        return Some(self.expr(&c.args[0]));
                    }
                }
                None
            }
            syn::Expr::MethodCall(m) => {
                // unsafe { x.deref() }.as_tree_node().unwrap()  /  .as_node().unwrap()
                let n = m.method.to_string();
                if n == "unwrap" || n == "expect" || n == "as_tree_node" || n == "as_node" {
                    return self.node_ptr(&m.receiver);
                }
                if n == "deref" && m.args.is_empty() {
                    return Some(self.expr(&m.receiver));
                }
                None
            }
            _ => None,
        }
    }

    /// `<node>.F` or `<node>.node.F` -> (ptr text, field)
    fn node_field(&mut self, e: &syn::Expr) -> Option<(String, String)> {
        let e = match e {
            syn::Expr::Paren(p) => &p.expr,
            syn::Expr::Reference(r) => &r.expr,
            x => x,
        };
        if let syn::Expr::Field(f) = e {
            let fname = match &f.member {
                syn::Member::Named(i) => i.to_string(),
                _ => return None,
            };
            // self.root / self.first
            if let syn::Expr::Path(p) = &*f.base {
                if p.path.is_ident("self") && self.self_is_bin {
                    return Some(("@bin".into(), fname));
                }
                if p.path.is_ident("self") && self.self_ptr {
                    return Some(("this".into(), fname));
                }
            }
            if let syn::Expr::Field(inner) = &*f.base {
                if let syn::Member::Named(i) = &inner.member {
                    if i == "node" {
                        let p = self.node_ptr(&inner.base)?;
                        return Some((p, fname));
                    }
                }
            }
            let p = self.node_ptr(&f.base)?;
            return Some((p, fname));
        }
        None
    }

    pub fn expr(&mut self, e: &syn::Expr) -> String {
        if self.verbatim {
            return toks(e);
        }
        match e {
            syn::Expr::Lit(_) => toks(e),
            syn::Expr::Path(p) => {
                let s = path_str(&p.path);
                if self.ops && s == "self" {
                    return "this".to_string(); // the object the method is called on
                }
                if self.ops && s == "h" {
                    return "h_local".to_string(); // R58: a local named `h` would shadow the arena
                }
                if let (Some((nm, _, _, _)), Some(sub)) = (&self.link_alias, &self.link_subst) {
                    if &s == nm {
                        return sub.clone();
                    }
                }
                s
            }
            syn::Expr::Paren(p) => format!("({})", self.expr(&p.expr)),
            syn::Expr::Group(p) => self.expr(&p.expr),
            syn::Expr::Reference(r) => {
                // &<node>.left / &<node>.right -> field reference (R6); &key -> key (R12)
                if let Some((p, f)) = self.node_field(&r.expr) {
                    if f == "left" || f == "right" {
                        return format!("fref({}, {})", p, if f == "left" { "LEFT" } else { "RIGHT" });
                    }
                    if f == "key" {
                        return format!("h.key({})", p);
                    }
                }
                self.expr(&r.expr)
            }
            syn::Expr::Unary(u) => match u.op {
                syn::UnOp::Not(_) => format!("!({})", self.expr(&u.expr)),
                syn::UnOp::Deref(_) => self.expr(&u.expr),
                syn::UnOp::Neg(_) => format!("-({})", self.expr(&u.expr)),
                _ => {
                    self.err("unary operator", e.span());
                    String::new()
                }
            },
            syn::Expr::Binary(b) => {
                let op = crate::emit::toks(&b.op);
                format!("({} {} {})", self.expr(&b.left), op, self.expr(&b.right))
            }
            syn::Expr::Field(fe) if self.ops && toks(&fe.member) == "0" && toks(&*fe.base).replace(' ', "") == "iter.size_hint()" => "size_hint_lo(&iter)".to_string(),
            syn::Expr::Field(fe) if self.ops && self.f.owner == "NodeIter" && matches!(&*fe.base, syn::Expr::Path(pp) if pp.path.is_ident("self")) => {
                // R41: the iterator object is an ordinary struct of the arena program
                format!("self.{}", toks(&fe.member))
            }
            syn::Expr::Field(fe) if self.ops && matches!(&fe.member, syn::Member::Named(i) if i == "node") && self.node_ptr(&fe.base).is_some() => {
                self.node_ptr(&fe.base).unwrap()
            }
            syn::Expr::Field(fe) if self.ops && matches!(&fe.member, syn::Member::Named(i) if i == "value") && matches!(&*fe.base, syn::Expr::Path(pp) if pp.path.is_ident("not_inserted")) => {
                // a Box<Linked<V>> handed back to the caller: its value is the value id
                "not_inserted".to_string()
            }
            syn::Expr::Field(fe) if self.ops && self.wrap && matches!(&fe.member, syn::Member::Named(i) if i == "set" || i == "map") && matches!(&*fe.base, syn::Expr::Path(pp) if !pp.path.is_ident("self")) => {
                self.expr(&fe.base)
            }
            syn::Expr::Field(fe) if self.ops && matches!(&*fe.base, syn::Expr::Path(pp) if pp.path.is_ident("changed")) => {
                format!("changed_{}", toks(&fe.member))
            }
            syn::Expr::Field(_) => {
                if let Some((p, f)) = self.node_field(e) {
                    match f.as_str() {
                        "hash" => return format!("h.hash({})", p),
                        "key" => return format!("h.key({})", p),
                        _ => {}
                    }
                }
                self.err(&format!("field access `{}`", toks(e)), e.span());
                String::new()
            }
            syn::Expr::Macro(m) => {
                let n = m.mac.path.segments.last().map(|s| s.ident.to_string()).unwrap_or_default();
                match n.as_str() {
                    "unreachable" => "{ assert(false); loop invariant false decreases 0int { } }".to_string(),
                    "panic" if self.ops => "{ assert(false); loop invariant false decreases 0int { } }".to_string(), // a reachable panic! is a failed obligation
                    "load_factor" if self.ops => {
                        // R54: load_factor!(x) -> load_factor(x) (the macro body is under contract in unit arith: //@MACRO load_factor)
                        match syn::parse2::<syn::Expr>(m.mac.tokens.clone()) {
                            Ok(a) => format!("load_factor({})", self.expr(&a)),
                            Err(_) => { self.err("load_factor! argument", e.span()); String::new() }
                        }
                    }
                    "treenode" => match self.node_ptr(e) {
                        Some(p) => p,
                        None => {
                            self.err("treenode!", e.span());
                            String::new()
                        }
                    },
                    _ => {
                        self.err(&format!("macro {}!", n), e.span());
                        String::new()
                    }
                }
            }
            syn::Expr::Unsafe(u) => match u.block.stmts.as_slice() {
                [syn::Stmt::Expr(inner, None)] => {
                    if let Some(p) = self.node_ptr(e) {
                        p
                    } else {
                        self.expr(inner)
                    }
                }
                _ => {
                    self.err("unsafe block with statements in expression position", e.span());
                    String::new()
                }
            },
            syn::Expr::Call(c) => self.call(c),
            syn::Expr::MethodCall(m) => self.method(m),
            syn::Expr::If(i) => {
                // expression-valued if (single-expression branches)
                let c = self.expr(&i.cond);
                let t = self.block_value(&i.then_branch);
                let el = match &i.else_branch {
                    Some((_, e2)) => match &**e2 {
                        syn::Expr::Block(b) => self.block_value(&b.block),
                        other => format!("{{ {} }}", self.expr(other)),
                    },
                    None => "{ }".into(),
                };
                format!("if {} {} else {}", c, t, el)
            }
            syn::Expr::Match(m) if self.ops && m.arms.iter().any(|a| toks(&a.pat).starts_with("BinEntry::")) => {
                // R59: an expression-level match on the entry behind a pointer: match on its kind; the variable a pattern binds
                // (`BinEntry::K(ref x)`) is the pointer itself, `&x.node` of a tree node is the same pointer
                let scrut = self.expr(&m.expr);
                let mut arms = vec![];
                for a in &m.arms {
                    let pat0 = toks(&a.pat);
                    let pat = if pat0.trim() == "_" { "_".to_string() } else {
                        let head = pat0.split('(').next().unwrap_or("").trim().to_string();
                        head.replace("BinEntry::", "Kind::").replace("Kind::TreeNode", "Kind::@TN").replace("Kind::Tree", "Kind::TreeBin").replace("Kind::@TN", "Kind::TreeNode")
                    };
                    let body_t = toks(&*a.body).replace(' ', "");
                    let bound = if let syn::Pat::TupleStruct(ts) = &a.pat { ts.elems.first().map(|e| toks(e).replace("ref ", "").replace("mut ", "").trim().to_string()) } else { None };
                    let body = match &bound {
                        Some(b) if body_t == *b || body_t == format!("&{}.node", b) => scrut.clone(),
                        _ => self.expr(&a.body),
                    };
                    arms.push(format!("{} => {},", pat, body));
                }
                format!("match h.kind({}) {{ {} }}", scrut, arms.join(" "))
            }
            syn::Expr::Match(m) => {
                let scrut = self.expr(&m.expr);
                let mut arms = vec![];
                for a in &m.arms {
                    let pat = toks(&a.pat);
                    let body = match &*a.body {
                        syn::Expr::Block(b) => self.block_value(&b.block),
                        other => self.expr(other),
                    };
                    arms.push(format!("{} => {},", pat, body));
                }
                format!("match {} {{ {} }}", scrut, arms.join(" "))
            }
            syn::Expr::Block(b) => self.block_value(&b.block),
            syn::Expr::Struct(s) => {
                let n = path_str(&s.path);
                if n == "TreeBin" {
                    let mut root = String::from("NULL");
                    let mut first = String::from("NULL");
                    for f in &s.fields {
                        if let syn::Member::Named(m) = &f.member {
                            if m == "root" {
                                root = self.expr(&f.expr);
                            }
                            if m == "first" {
                                first = self.expr(&f.expr);
                            }
                        }
                    }
                    return format!("h.make_bin({}, {})", root, first);
                }
                if self.ops && (n.contains("::") || n == "TryInsertError") {
                    let mut fs = vec![];
                    for f in &s.fields {
                        let v = self.expr(&f.expr);
                        let v = self.hoist(v);
                        fs.push(format!("{}: {}", toks(&f.member), v));
                    }
                    return format!("{} {{ {} }}", n, fs.join(", "));
                }
                self.err(&format!("struct literal {}", n), e.span());
                String::new()
            }
            syn::Expr::Cast(c) if self.ops && toks(&*c.ty).replace(' ', "").starts_with('*') => self.expr(&c.expr), // R48: a raw-pointer cast of a reference keeps the arena pointer
            syn::Expr::Cast(c) => format!("({} as {})", self.expr(&c.expr), toks(&*c.ty)),
            syn::Expr::Let(l) if self.ops => format!("let {} = {}", toks(&*l.pat), self.expr(&l.expr)),
            syn::Expr::Tuple(t) if self.ops => {
                let es: Vec<String> = t.elems.iter().map(|e| self.expr(e)).collect();
                format!("({})", es.join(", "))
            }
            _ => {
                self.err(&format!("expression `{}`", { let mut s = toks(e); s.truncate(60); s }), e.span());
                String::new()
            }
        }
    }

    /// a block in value position: statements must be simple assignments/lets, printed inline
    fn block_value(&mut self, b: &syn::Block) -> String {
        let mut parts = vec![];
        let n = b.stmts.len();
        for (i, s) in b.stmts.iter().enumerate() {
            match s {
                syn::Stmt::Expr(e, semi) => {
                    let t = match e {
                        syn::Expr::Assign(a) => format!("{} = {}", self.expr(&a.left), self.expr(&a.right)),
                        syn::Expr::Return(r) => match &r.expr {
                            Some(v) => format!("return {}", self.expr(v)),
                            None => "return".into(),
                        },
                        other => self.expr(other),
                    };
                    if semi.is_some() || i + 1 < n {
                        parts.push(format!("{};", t));
                    } else {
                        parts.push(t);
                    }
                }
                syn::Stmt::Local(l) => {
                    let pat = toks(&l.pat);
                    match &l.init {
                        Some(init) => {
                            let v = self.expr(&init.expr);
                            if self.self_ptr && v.starts_with("h.value(") {
                                self.value_vars.push(pat.clone());
                            }
                            parts.push(format!("let {} = {};", pat, v));
                        }
                        None => parts.push(format!("let {};", pat)),
                    }
                }
                syn::Stmt::Macro(m) => {
                    let n = m.mac.path.segments.last().map(|s| s.ident.to_string()).unwrap_or_default();
                    if n == "unreachable" {
                        parts.push("assert(false); loop invariant false decreases 0int { }".into());
                    } else if n.starts_with("debug_assert") {
                    } else {
                        self.err(&format!("macro {}! in value block", n), m.span());
                    }
                }
                _ => self.err("item in value block", s.span()),
            }
        }
        format!("{{ {} }}", parts.join(" "))
    }

    fn call(&mut self, c: &syn::ExprCall) -> String {
        let p = match &*c.func {
            syn::Expr::Path(p) => path_str(&p.path),
            _ => {
                self.err("call of a non-path", c.span());
                return String::new();
            }
        };
        match p.as_str() {
            "drop" if self.self_ptr => {
                // R26: dropping an owned TreeBin runs its Drop impl; dropping a lock guard has no arena counterpart
                let a = self.expr(&c.args[0]);
                if self.lock_vars.contains(&a) {
                    return "()".into();
                }
                if self.ops {
                    // R79: in the OPS family values are ids and reclamation is explicit (retire / free calls); dropping a local has no arena effect
                    return "()".into();
                }
                return format!("treebin_drop(h, {})", a);
            }
            "HashMap::with_capacity_and_hasher" | "Self::with_capacity_and_hasher" if self.ops => {
                // R72: a freshly constructed map: map_with_capacity(h, n)
                let n = self.expr(&c.args[0]);
                let n = self.hoist(n);
                return format!("map_with_capacity(h, {})", n);
            }
            "Self::default" if self.ops => return "map_default(h)".into(),
            "HashMap::with_hasher" | "HashSet::default" | "HashSet::with_hasher" if self.ops => return "map_default(h)".into(), // R76: a freshly constructed empty map / set
            "num_cpus" if self.ops => return "num_cpus()".into(), // R64: the number of CPUs is an arbitrary positive number (external)
            "Guard::unprotected" => return "()".into(),
            "std::thread::yield_now" | "thread::yield_now" if self.ops => return "()".into(), // R63: a scheduling hint has no arena counterpart
            "Shared::null" | "Atomic::null" => return "NULL".into(),
            "Atomic::from" | "Shared::from" => return self.expr(&c.args[0]),
            "remapping_function" if self.ops => {
                // R38: the user's remapping function is an arbitrary fixed function of its arguments
                let args: Vec<String> = c.args.iter().map(|a| self.expr(a)).collect();
                return format!("remap({})", args.join(", "));
            }
            "f" if self.ops => {
                // R38: the user callback is an arbitrary fixed predicate of its arguments
                let args: Vec<String> = c.args.iter().map(|a| self.expr(a)).collect();
                return format!("pred({})", args.join(", "));
            }
            "Ok" | "Err" if self.ops && c.args.len() == 1 => {
                let a = self.expr(&c.args[0]);
                return format!("{}({})", p, a);
            }
            "Some" if self.ops => {
                let a = self.expr(&c.args[0]);
                return format!("Some({})", a);
            }
            "TreeNode::new" if self.ops => {
                // R42: a TreeNode built as a value and boxed later is allocated here: (hash, key, value); links start null
                let mut args: Vec<String> = vec![];
                for a in c.args.iter().take(3) {
                    let v = self.expr(a);
                    args.push(self.hoist(v));
                }
                return format!("h.alloc_tree_node({})", args.join(", "));
            }
            "BinEntry::Tree" | "BinEntry::TreeNode" | "BinEntry::Node" if self.ops && c.args.len() == 1 => {
                return self.expr(&c.args[0]);
            }
            "TreeBin::new" if self.ops => {
                let a = self.expr(&c.args[0]);
                return format!("treebin_new(h, {})", a);
            }
            "std::cmp::min" | "cmp::min" | "std::cmp::max" | "cmp::max" if self.ops => {
                // R55: std::cmp::min / max on integers
                let a = self.expr(&c.args[0]);
                let b = self.expr(&c.args[1]);
                return format!("{}({}, {})", if p.ends_with("min") { "cmp_min" } else { "cmp_max" }, a, b);
            }
            "Shared::boxed" if self.ops && c.args.first().map(|a| toks(a).replace(' ', "").starts_with("Table::new(")).unwrap_or(false) => {
                // R56: Shared::boxed(Table::new(n, ..), ..) -> h.alloc_table(n)
                if let Some(syn::Expr::Call(tn)) = c.args.first() {
                    let n = self.expr(&tn.args[0]);
                    return format!("h.alloc_table({})", n);
                }
                return String::new();
            }
            "Shared::boxed" if self.ops => {
                // R28: Shared::boxed(BinEntry::Node(Node::new(h, k, v)), ..) / Node::with_next(h, k, v, next) -> h.alloc_node(..);
                //      Shared::boxed(<value>, ..) -> the value id itself
                if let Some(syn::Expr::Call(be)) = c.args.first() {
                    if let Some(syn::Expr::Call(tn)) = be.args.first() {
                        if let syn::Expr::Path(tp) = &*tn.func {
                            let ps = path_str(&tp.path);
                            if ps == "Node::new" || ps == "Node::with_next" {
                                let mut args: Vec<String> = vec![];
                                for a in tn.args.iter() {
                                    let v = self.expr(a);
                                    args.push(self.hoist(v));
                                }
                                if ps == "Node::new" {
                                    args.push("NULL".into());
                                }
                                return format!("h.alloc_node({})", args.join(", "));
                            }
                        }
                    }
                }
                if let Some(a0) = c.args.first() {
                    if let syn::Expr::Path(_) = a0 {
                        return self.expr(a0);
                    }
                    if let syn::Expr::Call(be) = a0 {
                        if let syn::Expr::Path(bp) = &*be.func {
                            let ps = path_str(&bp.path);
                            if (ps == "BinEntry::TreeNode" || ps == "BinEntry::Tree") && be.args.len() == 1 {
                                return self.expr(&be.args[0]);
                            }
                        }
                    }
                }
                self.err("Shared::boxed of an unknown object", c.span());
                return String::new();
            }
            "Shared::boxed" => {
                // R8
                if let Some(syn::Expr::Call(be)) = c.args.first() {
                    if let Some(syn::Expr::Call(tn)) = be.args.first() {
                        if let syn::Expr::Path(tp) = &*tn.func {
                            if path_str(&tp.path) == "TreeNode::new" {
                                let args: Vec<String> = tn.args.iter().map(|a| self.expr(a)).collect();
                                return format!("h.alloc_tree_node({})", args.join(", "));
                            }
                        }
                    }
                }
                self.err("Shared::boxed of something other than a TreeNode", c.span());
                return String::new();
            }
            "TreeNode::get_tree_node" | "Self::get_tree_node" => {
                return self.expr(&c.args[0]);
            }
            _ => {}
        }
        let segs: Vec<&str> = p.split("::").collect();
        if segs.len() == 2 && (segs[0] == "Self" || segs[0] == "TreeNode" || segs[0] == "TreeBin") {
            let raw: Vec<&syn::Expr> = c.args.iter().filter(|a| !is_drop_arg(a)).collect();
            let mut args: Vec<String> = vec![];
            for a in raw {
                let v = self.expr(a);
                args.push(self.hoist(v));
            }
            let mut all = vec!["h".to_string()];
            all.extend(args);
            return format!("{}({})", segs[1], all.join(", "));
        }
        self.err(&format!("call `{}`", p), c.span());
        String::new()
    }

    fn method(&mut self, m: &syn::ExprMethodCall) -> String {
        let name = m.method.to_string();
        match name.as_str() {
            "is_null" => return format!("({} == NULL)", self.expr(&m.receiver)),
            "load" if self.ops && toks(&*m.receiver).replace(' ', "") == "self.next_table" => "h.map_next_table(this)".to_string(), // R62: the map's next_table field (Table::next_table is the method h.next_table(t))
            "load" => {
                if self.self_ptr {
                    if let syn::Expr::Path(pp) = &*m.receiver {
                        if let Some(i) = pp.path.get_ident() {
                            return i.to_string(); // R21: a bin slot taken out of the table is already the pointer value
                        }
                    }
                }
                if let syn::Expr::Match(_) = &*m.receiver {
                    let r = self.expr(&m.receiver);
                    return format!("h.load_ref({})", r);
                }
                if let Some((p, f)) = self.node_field(&m.receiver) {
                    if p == "@bin" {
                        return format!("h.{}()", f);
                    }
                    return format!("h.{}({})", f, p);
                }
                self.err(&format!("load from `{}`", toks(&*m.receiver)), m.span());
                String::new()
            }
            "store" => {
                let v = m.args.first().map(|a| self.expr(a)).unwrap_or_default();
                let v = self.hoist(v);
                if let Some((p, f)) = self.node_field(&m.receiver) {
                    if p == "@bin" {
                        return format!("h.set_{}({})", f, v);
                    }
                    return format!("h.set_{}({}, {})", f, p, v);
                }
                self.err(&format!("store to `{}`", toks(&*m.receiver)), m.span());
                String::new()
            }
            "expect" | "unwrap" if self.ops && toks(&*m.receiver).replace(' ', "").starts_with("self.") => format!("{}.unwrap()", self.expr(&m.receiver)),
            "expect" | "unwrap" | "as_node" | "as_tree_node" if self.self_ptr => {
                let e = syn::Expr::MethodCall(m.clone());
                match self.node_ptr(&e) {
                    Some(p) => p,
                    None => {
                        self.err(&format!("method `.{}()`", name), m.span());
                        String::new()
                    }
                }
            }
            "hash" if self.ops && toks(&*m.receiver) == "self" => {
                // R29: self.hash(&key): the map's hasher is a fixed function of the key
                let k = self.expr(&m.args[0]);
                format!("h.hash_of({})", k)
            }
            _ if self.ops && self.wrap && matches!(toks(&*m.receiver).replace(' ', "").as_str(), "self.map" | "self.set") => {
                // R44 (WRAP): a method of the wrapped map / set: map_<m>(h, this, args) / set_<m>(h, this, args);
                // guards, closures and callback parameters are not arguments of the arena call, the unit value () is 0
                let pre = if toks(&*m.receiver).replace(' ', "") == "self.map" { "map" } else { "set" };
                let mut all = vec!["h".to_string(), "this".to_string()];
                for a in m.args.iter().filter(|a| !is_drop_arg(a)) {
                    if matches!(a, syn::Expr::Closure(_)) {
                        continue;
                    }
                    let t = toks(a).replace(' ', "");
                    if t == "f" || t == "remapping_function" {
                        continue;
                    }
                    if t == "()" {
                        all.push("0".into());
                        continue;
                    }
                    let v = self.expr(a);
                    all.push(self.hoist(v));
                }
                format!("{}_{}({})", pre, name, all.join(", "))
            }
            "push_state" | "recover_state" if self.ops && toks(&*m.receiver) == "self" => {
                let args: Vec<String> = m.args.iter().map(|a| self.expr(a)).collect();
                format!("self.{}({})", name, args.join(", "))
            }
            "as_ref" if self.ops => self.expr(&m.receiver),
            "is_subset" | "is_disjoint" | "is_superset" if self.ops && !self.wrap => {
                let r = self.expr(&m.receiver);
                let args: Vec<String> = m.args.iter().filter(|a| !is_drop_arg(a)).map(|a| self.expr(a)).collect();
                format!("{}(h, {}, {})", name, r, args.join(", "))
            }
            "contains" if self.ops => {
                let r = self.expr(&m.receiver);
                let args: Vec<String> = m.args.iter().filter(|a| !is_drop_arg(a)).map(|a| self.expr(a)).collect();
                format!("contains(h, {}, {})", r, args.join(", "))
            }
            "unwrap" | "expect" if self.ops && toks(&*m.receiver).replace(' ', "").starts_with("self.") => format!("{}.unwrap()", self.expr(&m.receiver)),
            "next_table" if self.ops => format!("h.next_table({})", self.expr(&m.receiver)),
            "find" if self.ops => {
                // R49: Table::find as a method: table_find(h, <table>, args..)
                let recv = self.expr(&m.receiver);
                let mut all = vec!["h".to_string(), recv];
                for a in m.args.iter().filter(|a| !is_drop_arg(a)) {
                    let v = self.expr(a);
                    all.push(self.hoist(v));
                }
                format!("table_find({})", all.join(", "))
            }
            "iter" if self.ops && toks(&*m.receiver) == "self" => "iter_new(h, this)".to_string(),
            // R75 (serde paths): the format's MapAccess / SeqAccess and Serializer are external objects under contract
            "size_hint" | "next_entry" | "next_element" | "next_key" | "next_value" if self.ops && toks(&*m.receiver) == "access" => {
                let mut all = vec!["&mut access".to_string()];
                for a in m.args.iter() { let v = self.expr(a); all.push(v); }
                format!("access_{}({})", name, all.join(", "))
            }
            "collect_map" | "collect_seq" if self.ops && m.args.len() == 1 => {
                let r = self.expr(&m.receiver);
                let a = self.expr(&m.args[0]);
                let a = self.hoist(a);
                format!("{}({}, {})", name, r, a)
            }
            // R78 (rayon forwarders): X.par_extend(it) -> par_extend(h, X', it) with X' = this for self / &*self / self.map / self.set
            "par_extend" if self.ops && m.args.len() == 1 => {
                let r = toks(&*m.receiver).replace(' ', "");
                let recv = if r == "self" || r == "(&*self)" || r == "&*self" || r == "self.map" || r == "self.set" || r == "(&self.map)" || r == "(&self.set)" { "this".to_string() } else { self.expr(&m.receiver) };
                let a = self.expr(&m.args[0]);
                format!("par_extend(h, {}, {})", recv, a)
            }
            // R77: HashMap / HashSet serialise through their pinned reference
            "serialize" if self.ops && toks(&*m.receiver).replace(' ', "") == "self.pin()" => {
                let args: Vec<String> = m.args.iter().map(|a| self.expr(a)).collect();
                format!("ref_serialize(h, this, {})", args.join(", "))
            }
            "next" if self.ops && toks(&*m.receiver).replace(' ', "") == "self.node_iter" => "node_iter_next(h, this)".to_string(), // R70: the wrapped traverser
            "next_internal" if self.ops && toks(&*m.receiver) == "self" => "iter_next_internal(h, this)".to_string(),
            "next_internal" if self.ops => format!("iter_next(h, &mut {})", self.expr(&m.receiver)),
            "before" | "after" if self.ops => format!("{}.{}()", self.expr(&m.receiver), name),
            "replace_node" | "put" | "insert" | "try_insert" if self.ops && toks(&*m.receiver) == "self" => {
                let mut all = vec!["h".to_string(), "this".to_string()];
                for a in m.args.iter().filter(|a| !is_drop_arg(a)) {
                    let v = self.expr(a);
                    all.push(self.hoist(v));
                }
                format!("{}({})", name, all.join(", "))
            }
            "clone" if self.ops => {
                // R35: cloning a key / an Atomic<V> of a node copies the key / the value id
                if let Some((p, f)) = self.node_field(&m.receiver) {
                    return format!("h.{}({})", f, p);
                }
                self.expr(&m.receiver)
            }
            "unwrap_or" if self.ops => {
                // R36: X.map(|v| <cond over v>).unwrap_or(d)  ->  match X { Some(v) => <cond>, None => d }
                if let syn::Expr::MethodCall(inner) = &*m.receiver {
                    if inner.method == "map" {
                        if let Some(syn::Expr::Closure(cl)) = inner.args.first() {
                            let x = self.expr(&inner.receiver);
                            let v = cl.inputs.first().map(|p| toks(p)).unwrap_or_default();
                            let body = self.expr(&cl.body);
                            let d = self.expr(&m.args[0]);
                            return format!("(match {} {{ Some({}) => {}, None => {} }})", x, v, body, d);
                        }
                    }
                }
                self.err("unwrap_or on an unknown shape", m.span());
                String::new()
            }
            "map" if self.ops => {
                // R37: unsafe { X.as_ref() }.map(move |v| BODY)  ->  { let v = X; Some(BODY) }   (value ids are never null)
                let recv = match &*m.receiver { syn::Expr::Unsafe(u) => match u.block.stmts.as_slice() { [syn::Stmt::Expr(e, None)] => e.clone(), _ => (*m.receiver).clone() }, other => other.clone() };
                if let (syn::Expr::MethodCall(ar), Some(syn::Expr::Closure(cl))) = (&recv, m.args.first()) {
                    if ar.method == "as_ref" {
                        let x = self.expr(&ar.receiver);
                        let v = cl.inputs.first().map(|p| toks(p)).unwrap_or_default();
                        let body = self.expr(&cl.body);
                        return format!("{{ let {} = {}; Some({}) }}", v, x, body);
                    }
                }
                if let Some(syn::Expr::Closure(cl)) = m.args.first() {
                    let v = cl.inputs.first().map(|p| toks(p)).unwrap_or_default();
                    let body = toks(&*cl.body).replace(['&', '*', ' '], "");
                    if body == v {
                        return self.expr(&m.receiver); // R37: a re-borrow of the same value
                    }
                    if self.wrap || toks(&*m.receiver).replace(' ', "") == "self.next_internal()" {
                        // R45 (WRAP): Option::map with an irrefutable pattern
                        let x = self.expr(&m.receiver);
                        let x = self.hoist(x);
                        let b = self.expr(&cl.body);
                        return format!("(match {} {{ Some({}) => Some({}), None => None }})", x, v, b);
                    }
                }
                self.err("map on an unknown shape", m.span());
                String::new()
            }
            "is_empty" if self.ops => {
                let r = self.expr(&m.receiver);
                format!("(h.tab_len({}) == 0)", r)
            }
            "is_none" if self.ops => format!("{}.is_none()", self.expr(&m.receiver)),
            "is_some" if self.ops => format!("{}.is_some()", self.expr(&m.receiver)),
            "bini" if self.ops => {
                let r = self.expr(&m.receiver);
                let a = self.expr(&m.args[0]);
                format!("h.bini({}, {})", r, a)
            }
            "cas_bin" if self.ops => {
                let r = self.expr(&m.receiver);
                let args: Vec<String> = m.args.iter().filter(|a| !is_drop_arg(a)).map(|a| self.expr(a)).collect();
                format!("h.cas_bin({}, {})", r, args.join(", "))
            }
            "init_table" | "treeify_bin" | "try_presize" | "untreeify" if self.ops => {
                let mut all = vec!["h".to_string(), "this".to_string()];
                for a in m.args.iter().filter(|a| !is_drop_arg(a)) {
                    let v = self.expr(a);
                    all.push(self.hoist(v));
                }
                format!("{}({})", name, all.join(", "))
            }
            "find_or_put_tree_val" | "remove_tree_node" if self.ops => {
                // R30: a method of the TreeBin object: f(h, <bin>, args..)
                let recv = self.expr(&m.receiver);
                let mut all = vec!["h".to_string(), recv];
                for a in m.args.iter().filter(|a| !is_drop_arg(a)) {
                    let v = self.expr(a);
                    all.push(self.hoist(v));
                }
                format!("{}({})", name, all.join(", "))
            }
            "check_guard" if self.self_ptr => "()".into(),
            "lock" if self.self_ptr => "()".into(),
            "len" | "is_empty" if self.ops && !self.wrap && m.args.is_empty() && toks(&*m.receiver) == "self" => format!("map_{}(h, this)", name), // R61: the map's own len() / is_empty()
            "reserve" | "try_presize" | "presize" if self.ops && !self.wrap && toks(&*m.receiver) == "self" => {
                let args: Vec<String> = m.args.iter().filter(|a| !is_drop_arg(a)).map(|a| self.expr(a)).collect();
                let mut all = vec!["h".to_string(), "this".to_string()];
                all.extend(args);
                // `reserve` is also a common local name (Extend::extend): the arena function is map_reserve
                format!("{}({})", if name == "reserve" { "map_reserve" } else { name.as_str() }, all.join(", "))
            }
            "len" if self.self_ptr && m.args.is_empty() => {
                let r = self.expr(&m.receiver);
                format!("h.tab_len({})", r)
            }
            "bin" if self.self_ptr => {
                let r = self.expr(&m.receiver);
                let i = self.expr(&m.args[0]);
                format!("h.bin({}, {})", r, i)
            }
            "store_bin" if self.self_ptr => {
                let r = self.expr(&m.receiver);
                let i = self.expr(&m.args[0]);
                let v = self.expr(&m.args[1]);
                let v = if self.ops { self.hoist(v) } else { v };
                format!("h.store_bin({}, {}, {})", r, i, v)
            }
            "get_moved" if self.ops => {
                let r = self.expr(&m.receiver);
                let a = self.expr(&m.args[0]);
                format!("h.get_moved({}, {})", r, a)
            }
            "fetch_add" | "fetch_sub" if self.ops && toks(&*m.receiver).replace(' ', "").starts_with("self.") => {
                // R51: self.F.fetch_add(x, ORD) -> h.fetch_add_F(this, x)  (returns the previous value)
                let f = toks(&*m.receiver).replace(' ', "").trim_start_matches("self.").to_string();
                let v = self.expr(&m.args[0]);
                format!("h.{}_{}(this, {})", name, f, v)
            }
            "abs" if self.ops => format!("iabs({})", self.expr(&m.receiver)),
            // R71 (bulk paths): iterators and freshly constructed maps
            "into_iter" if self.ops && matches!(&*m.receiver, syn::Expr::Path(pp) if pp.path.get_ident().map(|i| i == "iter").unwrap_or(false)) => "iter".to_string(),
            "next" if self.ops && matches!(&*m.receiver, syn::Expr::Path(pp) if pp.path.get_ident().map(|i| i == "iter").unwrap_or(false)) => "iter_next(h, &mut iter)".to_string(),
            "enter" | "guard" if self.ops && m.args.is_empty() && !self.wrap => "()".to_string(),
            "with_collector" if self.ops => self.expr(&m.receiver),
            "saturating_add" if self.ops => format!("sat_add({}, {})", self.expr(&m.receiver), self.expr(&m.args[0])),
            "put" | "put_all" | "insert" if self.ops && !self.wrap && matches!(strip_parens(&m.receiver), syn::Expr::Path(pp) if pp.path.get_ident().map(|i| i != "self").unwrap_or(false)) || (self.ops && !self.wrap && name == "put_all") => {
                let recv = match strip_parens(&m.receiver) { syn::Expr::Path(pp) if pp.path.is_ident("self") => "this".to_string(), syn::Expr::Unary(u) if toks(&*u.expr) == "self" => "this".to_string(), other => self.expr(other) };
                let mut all = vec!["h".to_string(), recv];
                for a in m.args.iter().filter(|a| !is_drop_arg(a)) {
                    let v = self.expr(a);
                    all.push(self.hoist(v));
                }
                format!("{}({})", name, all.join(", "))
            }
            "map_or" if self.ops && m.args.len() == 2 && matches!(&m.args[1], syn::Expr::Closure(_)) => {
                // R66: X.map_or(d, |v| B)  ->  match X { Some(v) => B, None => d }
                if let syn::Expr::Closure(cl) = &m.args[1] {
                    let x = self.expr(&m.receiver);
                    let x = self.hoist(x);
                    let d = self.expr(&m.args[0]);
                    let v = cl.inputs.first().map(|p| toks(p)).unwrap_or_default();
                    let b = self.expr(&cl.body);
                    return format!("(match {} {{ Some({}) => {}, None => {} }})", x, v, b, d);
                }
                String::new()
            }
            "get" if self.ops && !self.wrap && matches!(&*m.receiver, syn::Expr::Path(pp) if pp.path.get_ident().map(|i| i == "other").unwrap_or(false)) => {
                // R67: a lookup in another map passed as `other`
                let args: Vec<String> = m.args.iter().filter(|a| !is_drop_arg(a)).map(|a| self.expr(a)).collect();
                format!("get(h, other, {})", args.join(", "))
            }
            "max" | "min" if self.ops && m.args.len() == 1 => {
                // R57: a.max(b) / a.min(b) on integers
                let a = self.expr(&m.receiver);
                let b = self.expr(&m.args[0]);
                format!("cmp_{}({}, {})", name, a, b)
            }
            "next_power_of_two" if self.ops => format!("{}.next_power_of_two()", self.expr(&m.receiver)),
            "is_ok" if self.ops && matches!(&*m.receiver, syn::Expr::MethodCall(ce) if ce.method == "cas_bin") => {
                // R65: table.cas_bin(i, expected, new, guard).is_ok() -> h.cas_bin_ok(table, i, expected, new)
                if let syn::Expr::MethodCall(ce) = &*m.receiver {
                    let r = self.expr(&ce.receiver);
                    let mut all = vec![r];
                    for a in ce.args.iter().filter(|a| !is_drop_arg(a)) {
                        let v = self.expr(a);
                        all.push(self.hoist(v));
                    }
                    return format!("h.cas_bin_ok({})", all.join(", "));
                }
                String::new()
            }
            "is_err" if self.ops && matches!(&*m.receiver, syn::Expr::MethodCall(ce) if ce.method == "compare_exchange" && toks(&*ce.receiver).replace(' ', "").starts_with("self.")) => {
                // R52: .. .is_err() is the negation
                if let syn::Expr::MethodCall(ce) = &*m.receiver {
                    let f = toks(&*ce.receiver).replace(' ', "").trim_start_matches("self.").to_string();
                    let a = self.expr(&ce.args[0]);
                    let b = self.expr(&ce.args[1]);
                    return format!("!h.cas_{}(this, {}, {})", f, a, b);
                }
                String::new()
            }
            "is_ok" if self.ops && matches!(&*m.receiver, syn::Expr::MethodCall(ce) if ce.method == "compare_exchange" && toks(&*ce.receiver).replace(' ', "").starts_with("self.")) => {
                // R52: self.F.compare_exchange(a, b, ORD, ORD).is_ok() -> h.cas_F(this, a, b)
                if let syn::Expr::MethodCall(ce) = &*m.receiver {
                    let f = toks(&*ce.receiver).replace(' ', "").trim_start_matches("self.").to_string();
                    let a = self.expr(&ce.args[0]);
                    let b = self.expr(&ce.args[1]);
                    return format!("h.cas_{}(this, {}, {})", f, a, b);
                }
                String::new()
            }
            "get" | "get_key_value" | "contains_key" if self.ops && !self.wrap && toks(&*m.receiver) == "self" => {
                let args: Vec<String> = m.args.iter().filter(|a| !is_drop_arg(a)).map(|a| self.expr(a)).collect();
                let mut all = vec!["h".to_string(), "this".to_string()];
                all.extend(args);
                format!("{}({})", name, all.join(", "))
            }
            "help_transfer" | "add_count" | "transfer" | "get_node" if self.self_ptr => {
                // method of the map itself: f(h, this, args..) (guard arguments dropped)
                let args: Vec<String> = m.args.iter().filter(|a| !is_drop_arg(a)).map(|a| self.expr(a)).collect();
                let mut all = vec!["h".to_string(), "this".to_string()];
                all.extend(args);
                format!("{}({})", name, all.join(", "))
            }
            "swap" if self.self_ptr => {
                // R25: <obj>.F.swap(v, ORD, guard) -> h.swap_F(<obj>, v)
                let v = m.args.first().map(|a| self.expr(a)).unwrap_or_default();
                if let Some((p, f)) = self.node_field(&m.receiver) {
                    return format!("h.swap_{}({}, {})", f, p, v);
                }
                self.err("swap on an unknown place", m.span());
                String::new()
            }
            "into_box" if self.ops && self.value_vars.contains(&toks(&*m.receiver)) => self.expr(&m.receiver),
            "into_box" if self.ops && toks(&*m.receiver).replace(' ', "").starts_with("changed.") => self.expr(&m.receiver),
            "into_box" if self.self_ptr => {
                // R19: X.into_box() -> h.free(X)   (the Box now owns the object: it is released exactly here)
                if let Some((p, f)) = self.node_field(&m.receiver) {
                    if f == "value" {
                        return format!("h.free_value({})", p);
                    }
                    let inner = self.hoist(format!("h.{}({})", f, p));
                    return format!("h.free({})", inner);
                }
                let r = self.expr(&m.receiver);
                let r = self.hoist(r);
                format!("h.free({})", r)
            }
            "deref" if self.self_ptr && m.args.is_empty() => self.expr(&m.receiver),
            "drop_fields" | "drop_bins" if self.self_ptr => {
                let args: Vec<String> = m.args.iter().map(|a| self.expr(a)).collect();
                let recv = self.expr(&m.receiver);
                let recv = if recv == "self" { "this".to_string() } else { recv };
                let mut all = vec!["h".to_string(), recv];
                all.extend(args);
                format!("{}({})", name, all.join(", "))
            }
            "borrow" => self.expr(&m.receiver),
            "cmp" => {
                let a = self.expr(&m.receiver);
                let b = m.args.first().map(|x| self.expr(x)).unwrap_or_default();
                format!("{}.cmp(&{})", a, b)
            }
            "then" => {
                let a = self.expr(&m.receiver);
                let b = m.args.first().map(|x| self.expr(x)).unwrap_or_default();
                format!("ord_then({}, {})", a, b)
            }
            "retire_shared" => {
                let a = &m.args[0];
                if let syn::Expr::MethodCall(inner) = a {
                    if inner.method == "load" {
                        if let Some((p, f)) = self.node_field(&inner.receiver) {
                            if f == "value" {
                                return format!("h.retire_value({})", p);
                            }
                        }
                    }
                }
                let t = self.expr(a);
                if self.value_vars.contains(&t) {
                    return format!("h.retire_value_id({})", t);
                }
                format!("h.retire({})", t)
            }
            "lock_root" | "unlock_root" => "()".into(),
            _ => {
                self.err(&format!("method `.{}()`", name), m.span());
                String::new()
            }
        }
    }

    // ------------------------------------------------------------------ statements
    pub fn block(&mut self, b: &syn::Block, ind: usize) {
        for s in &b.stmts {
            self.stmt(s, ind);
        }
    }

    fn is_ptr_type(t: &syn::Type) -> bool {
        toks(t).replace(' ', "").starts_with("Shared<")
    }

    fn stmt(&mut self, s: &syn::Stmt, ind: usize) {
        let ln = s.span().start().line;
        match s {
            syn::Stmt::Local(l) if self.verbatim => {
                self.push(ind, toks(l), ln, true);
            }
            syn::Stmt::Local(l) if self.ops && matches!(&l.pat, syn::Pat::TupleStruct(_)) && l.init.as_ref().map(|i| i.diverge.is_some() && toks(&*i.expr).replace(' ', "").starts_with("**")).unwrap_or(false) => {
                // R47: let BinEntry::K(ref x) = **p else { unreachable!() }  ->  the kind of p is checked (proof obligation), x is p
                if let (syn::Pat::TupleStruct(ts), Some(init)) = (&l.pat, &l.init) {
                    let kind = ts.path.segments.last().map(|s| s.ident.to_string()).unwrap_or_default();
                    let var = ts.elems.first().map(|e| toks(e).replace("ref ", "").replace("mut ", "")).unwrap_or_default();
                    let k = match kind.as_str() { "Tree" => "TreeBin", "TreeNode" => "TreeNode", "Node" => "Node", "Moved" => "Moved", _ => "Unknown" };
                    let p = toks(&*init.expr).replace(' ', "").trim_start_matches('*').to_string();
                    self.push(ind, format!("match h.kind({}) {{ Kind::{} => {{}} _ => {{ assert(false); loop invariant false decreases 0int {{ }} }} }}", p, k), ln, true);
                    self.push(ind, format!("let {}: Ptr = {};", var, p), ln, true);
                }
            }
            syn::Stmt::Local(l) if self.self_ptr && matches!(&l.pat, syn::Pat::TupleStruct(_)) => {
                // R17: let BinEntry::K(x) = <box>.value else { unreachable!() }   ->   let x: Ptr = h.as_K(<ptr>)
                if let (syn::Pat::TupleStruct(ts), Some(init)) = (&l.pat, &l.init) {
                    let kind = ts.path.segments.last().map(|s| s.ident.to_string()).unwrap_or_default();
                    let var = ts.elems.first().map(|e| toks(e).replace("mut ", "")).unwrap_or_default();
                    let is_mut = ts.elems.first().map(|e| toks(e).starts_with("mut ")).unwrap_or(false);
                    if let syn::Expr::Field(fe) = &*init.expr {
                        if toks(&fe.member) == "value" && init.diverge.is_some() {
                            let b = self.expr(&fe.base);
                            let b = self.hoist(b);
                            let k = match kind.as_str() { "Tree" => "tree_bin", "TreeNode" => "tree_node", "Node" => "node", _ => "unknown" };
                            self.push(ind, format!("let {}{}: Ptr = h.as_{}({});", if is_mut { "mut " } else { "" }, var, k, b), ln, true);
                            return;
                        }
                    }
                }
                self.err("destructuring let", l.span());
            }
            syn::Stmt::Local(l) if self.ops && {
                // R46 detection
                let mut ok = false;
                if let (syn::Pat::Ident(_), Some(init)) = (&l.pat, &l.init) {
                    if let syn::Expr::If(i) = &*init.expr {
                        let t = toks(&i.then_branch).replace(' ', "");
                        ok = t.starts_with("{&mut") && i.else_branch.is_some();
                    }
                }
                ok
            } => {
                if let (syn::Pat::Ident(pi), Some(init)) = (&l.pat, &l.init) {
                    if let syn::Expr::If(i) = &*init.expr {
                        let grab = |b: &syn::Block| -> String { toks(b).replace(' ', "").trim_start_matches("{&mut").trim_end_matches('}').to_string() };
                        let a = grab(&i.then_branch);
                        let b = match &i.else_branch { Some((_, e)) => match &**e { syn::Expr::Block(bb) => grab(&bb.block), _ => String::new() }, None => String::new() };
                        let c = self.expr(&i.cond);
                        self.link_alias = Some((pi.ident.to_string(), c, a, b));
                    }
                }
            }
            syn::Stmt::Local(l) if self.self_ptr && matches!(&l.pat, syn::Pat::Wild(_)) => {
                // R18: `let _ = <expr>;` evaluates the expression and drops the result
                if let Some(init) = &l.init {
                    let v = self.expr(&init.expr);
                    self.push(ind, format!("{};", v), ln, true);
                }
            }
            syn::Stmt::Local(l) if self.self_ptr && l.init.as_ref().map(|i| toks(&*i.expr).ends_with(".lock.lock()")).unwrap_or(false) => {
                // the bin lock has no arena counterpart (sequential semantics)
                if let syn::Pat::Ident(i) = &l.pat {
                    self.lock_vars.push(i.ident.to_string());
                }
            }
            syn::Stmt::Local(l) if self.self_ptr && l.init.as_ref().map(|i| toks(&*i.expr).contains("Guard::unprotected")).unwrap_or(false) => {
                // R24: the unprotected guard of teardown code has no arena counterpart
            }
            syn::Stmt::Local(l) if self.ops && l.init.as_ref().map(|i| toks(&*i.expr).replace(' ', "") == "iter.size_hint()").unwrap_or(false) => {
                // R73: let (lower, _) = iter.size_hint();
                let pat = toks(&l.pat).replace(' ', "");
                let lower = pat.trim_start_matches('(').split(',').next().unwrap_or("lower").to_string();
                self.push(ind, format!("let {} = size_hint_lo(&iter);", lower), ln, true);
            }
            syn::Stmt::Local(l) if self.ops && matches!(l.init.as_ref().map(|i| &*i.expr), Some(syn::Expr::Try(_))) && matches!(&l.pat, syn::Pat::Ident(_)) => {
                // R60: let x = E?;  in a function returning Option: None is passed on
                if let (syn::Pat::Ident(pi), Some(init)) = (&l.pat, &l.init) {
                    if let syn::Expr::Try(t) = &*init.expr {
                        let v = self.expr(&t.expr);
                        let v = self.hoist(v);
                        let pre: Vec<String> = self.pre.drain(..).collect();
                        for p0 in pre { self.push(ind, p0, ln, true); }
                        let k = self.ret_count;
                        self.ret_count += 1;
                        self.push(ind, format!("if {}.is_none() {{", v), ln, false);
                        self.mark(ind + 1, format!("ret#{}", k));
                        self.push(ind + 1, "return None;".into(), ln, true);
                        self.push(ind, "}".into(), 0, false);
                        self.push(ind, format!("let {}: Ptr = {}.unwrap();", pi.ident, v), ln, true);
                        self.aliases.push(pi.ident.to_string());
                    }
                }
            }
            syn::Stmt::Local(l) => {
                let (name, ty) = match &l.pat {
                    syn::Pat::Ident(i) => (Some((i.ident.to_string(), i.mutability.is_some())), None),
                    syn::Pat::Type(t) => match &*t.pat {
                        syn::Pat::Ident(i) => (Some((i.ident.to_string(), i.mutability.is_some())), Some((*t.ty).clone())),
                        _ => (None, None),
                    },
                    _ => (None, None),
                };
                let (name, is_mut) = match name {
                    Some((n0, m0)) if self.ops && n0 == "h" => ("h_local".to_string(), m0),
                    Some(x) => x,
                    None => {
                        self.err("destructuring let", l.span());
                        return;
                    }
                };
                let m = if is_mut { "mut " } else { "" };
                match &l.init {
                    None => {
                        if ty.as_ref().map(Self::is_ptr_type).unwrap_or(false) {
                            self.push(ind, format!("let mut {}: Ptr = NULL;", name), ln, true);
                        } else {
                            self.push(ind, format!("let {}{};", m, name), ln, true);
                        }
                    }
                    Some(init) => {
                        // R2: node aliases
                        let is_node = match &*init.expr {
                            syn::Expr::Macro(mm) => mm.mac.path.is_ident("treenode"),
                            syn::Expr::Reference(_) if self.ops => {
                                let t = toks(&*init.expr);
                                t.contains("get_tree_node") && t.replace(' ', "").ends_with(".node")
                            }
                            syn::Expr::Unsafe(_) | syn::Expr::Call(_) | syn::Expr::MethodCall(_) => {
                                let t = toks(&*init.expr);
                                t.contains("get_tree_node") && !t.contains(".load(") && !t.contains(".store(")
                            }
                            _ => false,
                        };
                        if is_node {
                            if let Some(p) = self.node_ptr(&init.expr) {
                                self.aliases.push(name.clone());
                                self.push(ind, format!("let {}{}: Ptr = {};", m, name, p), ln, true);
                                return;
                            }
                        }
                        // loop-valued let
                        if let syn::Expr::Loop(lp) = &*init.expr {
                            if self.ops {
                                self.push(ind, format!("let mut {};", name), ln, true);
                                self.push(ind, "loop".into(), ln, false);
                                self.break_targets.push(Some(name.clone()));
                                self.loop_body(&lp.body, ind, ln);
                                self.break_targets.pop();
                                return;
                            }
                            self.push(ind, format!("let {}{} = loop", m, name), ln, false);
                            self.loop_body(&lp.body, ind, ln);
                            self.lines.last_mut().unwrap().text.push(';');
                            return;
                        }
                        let v = self.expr(&init.expr);
                        if self.self_ptr && (v.starts_with("h.value(") || v.starts_with("h.swap_value(")) {
                            self.value_vars.push(name.clone());
                        }
                        if self.ops && toks(&*init.expr).replace(' ', "").starts_with("Shared::boxed") && v == name {
                            // R28: `let value = Shared::boxed(value, ..)`: the same value id under the same name
                            self.value_vars.push(name.clone());
                            return;
                        }
                        self.push(ind, format!("let {}{} = {};", m, name, v), ln, true);
                    }
                }
            }
            syn::Stmt::Macro(m) => {
                let n = m.mac.path.segments.last().map(|s| s.ident.to_string()).unwrap_or_default();
                match n.as_str() {
                    "debug_assert" | "debug_assert_eq" | "debug_assert_ne" => {}
                    "unreachable" => self.push(ind, "assert(false); loop invariant false decreases 0int { }".into(), ln, true),
                    "assert_eq" if self.ops => {
                        // R31: assert_eq!(a, b) is a proof obligation
                        match m.mac.parse_body_with(syn::punctuated::Punctuated::<syn::Expr, syn::Token![,]>::parse_terminated) {
                            Ok(args) if args.len() >= 2 => { let a = self.expr(&args[0]); let a = self.hoist(a); let b = self.expr(&args[1]); let b = self.hoist(b); self.push(ind, format!("assert({} == {});", a, b), ln, true); }
                            _ => self.err("assert_eq! shape", m.span()),
                        }
                    }
                    "assert" if self.ops => {
                        // R31: assert!(c) is a proof obligation
                        match syn::parse2::<syn::Expr>(m.mac.tokens.clone()) {
                            Ok(c) => { let t = self.expr(&c); let t = self.hoist(t); self.push(ind, format!("assert({});", t), ln, true); }
                            Err(_) => self.err("assert! with a message", m.span()),
                        }
                    }
                    _ => self.err(&format!("macro {}!", n), m.span()),
                }
            }
            syn::Stmt::Item(syn::Item::Use(_)) if self.ops => {} // R53: a `use` inside a function body only names paths
            syn::Stmt::Item(_) => self.err("nested item", s.span()),
            syn::Stmt::Expr(e, semi) => self.stmt_expr(e, semi.is_some(), ind, ln),
        }
    }

    /// R34 helper: emit the statements of a value block, assigning its tail value to `target`
    fn assign_block(&mut self, target: &str, b: &syn::Block, ind: usize) {
        let n = b.stmts.len();
        for (k, st) in b.stmts.iter().enumerate() {
            match st {
                syn::Stmt::Expr(e2, None) if k + 1 == n => self.assign_into(target, e2, ind, e2.span().start().line),
                other => self.stmt(other, ind),
            }
        }
    }
    fn assign_into(&mut self, target: &str, e: &syn::Expr, ind: usize, ln: usize) {
        match e {
            syn::Expr::Block(bl) => {
                self.push(ind, "{".into(), ln, false);
                self.assign_block(target, &bl.block, ind + 1);
                self.push(ind, "}".into(), 0, false);
            }
            syn::Expr::Unsafe(u) => self.assign_block(target, &u.block, ind),
            syn::Expr::If(i) => {
                let c = self.expr(&i.cond);
                self.push(ind, format!("if {} {{", c), ln, false);
                self.assign_block(target, &i.then_branch, ind + 1);
                match &i.else_branch {
                    Some((_, e2)) => {
                        self.push(ind, "} else {".into(), 0, false);
                        match &**e2 {
                            syn::Expr::Block(b) => self.assign_block(target, &b.block, ind + 1),
                            other => self.assign_into(target, other, ind + 1, other.span().start().line),
                        }
                    }
                    None => {}
                }
                self.push(ind, "}".into(), 0, false);
            }
            other => {
                let t = self.expr(other);
                self.push(ind, format!("{} = {};", target, t), ln, true);
            }
        }
    }

    fn loop_body(&mut self, body: &syn::Block, ind: usize, _ln: usize) {
        let k = self.loop_count;
        self.loop_count += 1;
        self.mark(ind + 1, format!("loop:{}", k));
        self.push(ind, "{".into(), 0, false);
        self.mark(ind + 1, format!("loophead:{}", k));
        self.block(body, ind + 1);
        self.mark(ind + 1, format!("loopend:{}", k));
        self.push(ind, "}".into(), 0, false);
    }

    fn stmt_expr(&mut self, e: &syn::Expr, semi: bool, ind: usize, ln: usize) {
        match e {
            syn::Expr::If(i) => {
                // `if cfg!(debug_assertions) { .. }` removed (R10)
                if toks(&*i.cond).contains("debug_assertions") {
                    return;
                }
                let c = self.expr(&i.cond);
                self.push(ind, format!("if {} {{", c), ln, false);
                self.block(&i.then_branch, ind + 1);
                let mut cur = &i.else_branch;
                loop {
                    match cur {
                        Some((_, e2)) => match &**e2 {
                            syn::Expr::If(i2) => {
                                let c2 = self.expr(&i2.cond);
                                self.push(ind, format!("}} else if {} {{", c2), i2.span().start().line, false);
                                self.block(&i2.then_branch, ind + 1);
                                cur = &i2.else_branch;
                            }
                            syn::Expr::Block(b) => {
                                self.push(ind, "} else {".into(), 0, false);
                                self.block(&b.block, ind + 1);
                                cur = &None;
                            }
                            _ => {
                                self.err("else branch", e2.span());
                                cur = &None;
                            }
                        },
                        None => break,
                    }
                }
                self.push(ind, "}".into(), 0, false);
            }
            syn::Expr::MethodCall(mc) if self.ops && !semi && mc.method == "all" && mc.args.len() == 1 && matches!(&mc.args[0], syn::Expr::Closure(_))
                && matches!(&*mc.receiver, syn::Expr::MethodCall(r0) if r0.method == "iter" && toks(&*r0.receiver) == "self") => {
                // R68: self.iter(g).all(|PAT| BODY) as the function's value: the same loop over a fresh iterator, leaving with false at the
                // first item for which BODY is false, true at the end
                if let syn::Expr::Closure(cl) = &mc.args[0] {
                    let pat = cl.inputs.first().map(|p| toks(p)).unwrap_or_default();
                    self.push(ind, "let mut it_for = iter_new(h, this);".into(), ln, true);
                    self.push(ind, "loop".into(), ln, false);
                    let k = self.loop_count;
                    self.loop_count += 1;
                    self.mark(ind + 1, format!("loop:{}", k));
                    self.push(ind, "{".into(), 0, false);
                    self.push(ind + 1, "let it_item = iter_next(h, &mut it_for);".into(), ln, true);
                    self.push(ind + 1, "if it_item.is_none() {".into(), ln, false);
                    self.push(ind + 2, "break;".into(), ln, true);
                    self.push(ind + 1, "}".into(), 0, false);
                    self.push(ind + 1, format!("let {} = it_item.unwrap();", pat), ln, true);
                    self.mark(ind + 1, format!("loophead:{}", k));
                    let b = self.expr(&cl.body);
                    let b = self.hoist(b);
                    self.push(ind + 1, format!("if !({}) {{", b), ln, false);
                    let rk = self.ret_count;
                    self.ret_count += 1;
                    self.mark(ind + 2, format!("ret#{}", rk));
                    self.push(ind + 2, "return false;".into(), ln, true);
                    self.push(ind + 1, "}".into(), 0, false);
                    self.mark(ind + 1, format!("loopend:{}", k));
                    self.push(ind, "}".into(), 0, false);
                    let rk2 = self.ret_count;
                    self.ret_count += 1;
                    self.mark(ind, format!("ret#{}", rk2));
                    self.push(ind, "true".into(), ln, false);
                }
            }
            syn::Expr::Loop(l) if self.ops && !semi && own_break_value(&l.body) => {
                // R50: a loop in tail position whose value is given by `break V`: the value goes through a fresh variable (R27)
                let name = format!("loop_val{}", self.loop_count);
                self.push(ind, format!("let mut {};", name), ln, true);
                self.push(ind, "loop".into(), ln, false);
                self.break_targets.push(Some(name.clone()));
                self.loop_body(&l.body, ind, ln);
                self.break_targets.pop();
                self.push(ind, name, ln, false);
            }
            syn::Expr::Loop(l) => {
                self.push(ind, "loop".into(), ln, false);
                self.break_targets.push(None);
                self.loop_body(&l.body, ind, ln);
                self.break_targets.pop();
            }
            syn::Expr::ForLoop(fl) if self.self_ptr && toks(&*fl.expr).contains("self.bins") => {
                // R20: for bin in Vec::from(mem::replace(&mut self.bins, ..)) { body }
                let var = toks(&*fl.pat);
                self.push(ind, "let bins = h.take_bins(this);".into(), ln, true);
                self.push(ind, "let mut it: usize = 0;".into(), ln, true);
                self.push(ind, "while it < bins.len()".into(), ln, false);
                let k = self.loop_count;
                self.loop_count += 1;
                self.mark(ind + 1, format!("loop:{}", k));
                self.push(ind, "{".into(), 0, false);
                self.push(ind + 1, format!("let {} = bins[it];", var), ln, true);
                self.push(ind + 1, "it = it + 1;".into(), ln, true);
                self.mark(ind + 1, format!("loophead:{}", k));
                self.block(&fl.body, ind + 1);
                self.mark(ind + 1, format!("loopend:{}", k));
                self.push(ind, "}".into(), 0, false);
            }
            syn::Expr::While(w) if self.ops && !self.verbatim && matches!(&*w.cond, syn::Expr::Let(_)) => {
                // R39: while let PAT = E { body }  ->  loop { let item = E; if item.is_none() { break; } let PAT' = item.unwrap(); body }
                if let syn::Expr::Let(l) = &*w.cond {
                    // R74: while let PAT = E? { body }: an Err of E leaves the function with that error
                    let (e, tried) = match &*l.expr { syn::Expr::Try(t) => (self.expr(&t.expr), true), other => (self.expr(other), false) };
                    let inner = match &*l.pat { syn::Pat::TupleStruct(ts) if ts.elems.len() == 1 => toks(&ts.elems[0]), other => toks(other) };
                    self.push(ind, "loop".into(), ln, false);
                    let k = self.loop_count;
                    self.loop_count += 1;
                    self.mark(ind + 1, format!("loop:{}", k));
                    self.push(ind, "{".into(), 0, false);
                    if tried {
                        self.push(ind + 1, format!("let it_res = {};", e), ln, true);
                        let rk = self.ret_count;
                        self.ret_count += 1;
                        self.push(ind + 1, "if it_res.is_err() {".into(), ln, false);
                        self.mark(ind + 2, format!("ret#{}", rk));
                        self.push(ind + 2, "return Err(res_err(it_res));".into(), ln, true);
                        self.push(ind + 1, "}".into(), 0, false);
                        self.push(ind + 1, "let it_item = it_res.unwrap();".into(), ln, true);
                    } else {
                    self.push(ind + 1, format!("let it_item = {};", e), ln, true);
                    }
                    self.push(ind + 1, "if it_item.is_none() {".into(), ln, false);
                    self.push(ind + 2, "break;".into(), ln, true);
                    self.push(ind + 1, "}".into(), 0, false);
                    self.push(ind + 1, format!("let {} = it_item.unwrap();", inner), ln, true);
                    self.mark(ind + 1, format!("loophead:{}", k));
                    self.break_targets.push(None);
                    self.block(&w.body, ind + 1);
                    self.break_targets.pop();
                    self.mark(ind + 1, format!("loopend:{}", k));
                    self.push(ind, "}".into(), 0, false);
                }
            }
            syn::Expr::ForLoop(fl) if self.ops && matches!(&*fl.expr, syn::Expr::Path(pp) if pp.path.get_ident().map(|i| i == "iter").unwrap_or(false)) => {
                // R69: for PAT in iter { body } over an iterator passed as the parameter `iter`: the same loop over that iterator
                let pat = toks(&*fl.pat);
                self.push(ind, "let mut it_for = iter;".into(), ln, true);
                self.push(ind, "loop".into(), ln, false);
                let k = self.loop_count;
                self.loop_count += 1;
                self.mark(ind + 1, format!("loop:{}", k));
                self.push(ind, "{".into(), 0, false);
                self.push(ind + 1, "let it_item = iter_next(h, &mut it_for);".into(), ln, true);
                self.push(ind + 1, "if it_item.is_none() {".into(), ln, false);
                self.push(ind + 2, "break;".into(), ln, true);
                self.push(ind + 1, "}".into(), 0, false);
                self.push(ind + 1, format!("let {} = it_item.unwrap();", pat), ln, true);
                self.mark(ind + 1, format!("loophead:{}", k));
                self.break_targets.push(None);
                self.block(&fl.body, ind + 1);
                self.break_targets.pop();
                self.mark(ind + 1, format!("loopend:{}", k));
                self.push(ind, "}".into(), 0, false);
            }
            syn::Expr::ForLoop(fl) if self.ops && toks(&*fl.expr).replace(' ', "").starts_with("self.iter(") => {
                // R40: for PAT in self.iter(guard) { body }: the same loop over a fresh iterator
                let pat = toks(&*fl.pat);
                self.push(ind, "let mut it_for = iter_new(h, this);".into(), ln, true);
                self.push(ind, "loop".into(), ln, false);
                let k = self.loop_count;
                self.loop_count += 1;
                self.mark(ind + 1, format!("loop:{}", k));
                self.push(ind, "{".into(), 0, false);
                self.push(ind + 1, "let it_item = iter_next(h, &mut it_for);".into(), ln, true);
                self.push(ind + 1, "if it_item.is_none() {".into(), ln, false);
                self.push(ind + 2, "break;".into(), ln, true);
                self.push(ind + 1, "}".into(), 0, false);
                self.push(ind + 1, format!("let {} = it_item.unwrap();", pat), ln, true);
                self.mark(ind + 1, format!("loophead:{}", k));
                self.break_targets.push(None);
                self.block(&fl.body, ind + 1);
                self.break_targets.pop();
                self.mark(ind + 1, format!("loopend:{}", k));
                self.push(ind, "}".into(), 0, false);
            }
            syn::Expr::While(w) => {
                let c = self.expr(&w.cond);
                self.push(ind, format!("while {}", c), ln, false);
                self.break_targets.push(None);
                self.loop_body(&w.body, ind, ln);
                self.break_targets.pop();
            }
            syn::Expr::Match(_) if self.verbatim && !semi => {
                // VERBATIM: a match in tail position is the function's value
                let k = self.ret_count;
                self.ret_count += 1;
                self.mark(ind, format!("ret#{}", k));
                self.push(ind, toks(e), ln, true);
            }
            syn::Expr::Match(m) if self.ops && !semi && ind == 1 && !m.arms.iter().any(|a| toks(&a.pat).starts_with("BinEntry")) => {
                // R43: a match in tail position is the function's value: each arm returns its value
                let scrut = self.expr(&m.expr);
                let scrut = self.hoist(scrut);
                let pre: Vec<String> = self.pre.drain(..).collect();
                for p0 in pre {
                    self.push(ind, p0, ln, true);
                }
                self.push(ind, format!("match {} {{", scrut), ln, false);
                for a in &m.arms {
                    self.push(ind + 1, format!("{} => {{", toks(&a.pat)), a.span().start().line, false);
                    match &*a.body {
                        syn::Expr::Block(bb) if bb.block.stmts.len() == 1 && toks(&bb.block).contains("unreachable !") => self.push(ind + 2, "assert(false); loop invariant false decreases 0int { }".into(), a.span().start().line, true),
                        syn::Expr::Macro(mm) if mm.mac.path.is_ident("unreachable") => self.push(ind + 2, "assert(false); loop invariant false decreases 0int { }".into(), a.span().start().line, true),
                        other => {
                            let k = self.ret_count;
                            self.ret_count += 1;
                            self.mark(ind + 2, format!("ret#{}", k));
                            let t = self.expr(other);
                            self.push(ind + 2, format!("return {};", t), a.span().start().line, true);
                        }
                    }
                    self.push(ind + 1, "}".into(), 0, false);
                }
                self.push(ind, "}".into(), 0, false);
            }
            syn::Expr::Match(m) => {
                // statement-level match: arms as blocks
                let mut scrut = self.expr(&m.expr);
                let on_entry = self.self_ptr && m.arms.iter().any(|a| toks(&a.pat).starts_with("BinEntry::"));
                if on_entry {
                    scrut = format!("h.kind({})", scrut); // R22
                }
                let on_cas = self.ops && scrut.starts_with("h.cas_bin(");
                if on_entry && self.ops {
                    // R32: a guard of an arm may mention the variable its pattern binds: the object behind the matched pointer
                    for a in &m.arms {
                        if a.guard.is_some() {
                            if let syn::Pat::TupleStruct(ts) = &a.pat {
                                if let Some(syn::Pat::Ident(pi)) = ts.elems.first() {
                                    let sc = self.expr(&m.expr);
                                    self.push(ind, format!("let {}: Ptr = {};", pi.ident, sc), ln, true);
                                    break;
                                }
                            }
                        }
                    }
                }
                self.push(ind, format!("match {} {{", scrut), ln, false);
                for a in &m.arms {
                    let mut pat = toks(&a.pat);
                    let mut bound: Option<String> = None;
                    if on_cas {
                        // R33: Result<_, CompareExchangeError { current, new }> of cas_bin
                        pat = if pat.starts_with("Ok") { "CasResult::Ok(_)".to_string() } else { "CasResult::Err(changed_current, changed_new)".to_string() };
                    }
                    if on_entry {
                        if let syn::Pat::TupleStruct(ts) = &a.pat {
                            if let Some(syn::Pat::Ident(pi)) = ts.elems.first() {
                                bound = Some(pi.ident.to_string());
                            }
                        }
                        let alts: Vec<String> = pat.split('|').map(|alt| {
                            let head = alt.split('(').next().unwrap_or("").trim().to_string();
                            head.replace("BinEntry::", "Kind::").replace("Kind::TreeNode", "Kind::@TN").replace("Kind::Tree", "Kind::TreeBin").replace("Kind::@TN", "Kind::TreeNode")
                        }).collect();
                        pat = alts.join(" | ");
                    }
                    let guard = match &a.guard { Some((_, g)) if self.ops => format!(" if {}", self.expr(g)), _ => String::new() };
                    self.push(ind + 1, format!("{}{} => {{", pat, guard), a.span().start().line, false);
                    if on_entry {
                        if let Some(lines) = self.arm_bodies.get(&pat.replace(' ', "")).cloned() {
                            for l0 in lines {
                                self.push(ind + 2, l0.trim().to_string(), a.span().start().line, true);
                            }
                            self.arm_bodies_used.push(pat.replace(' ', ""));
                            self.push(ind + 1, "}".into(), 0, false);
                            continue;
                        }
                    }
                    self.ctx.push(pat.replace(' ', ""));
                    if let Some(b) = &bound {
                        // `BinEntry::K(ref x)`: x is the object behind the matched pointer
                        let sc = self.expr(&m.expr);
                        self.push(ind + 2, format!("let {}: Ptr = {};", b, sc), a.span().start().line, true);
                    }
                    match &*a.body {
                        syn::Expr::Block(b) => self.block(&b.block, ind + 2),
                        other => self.stmt_expr(other, true, ind + 2, a.span().start().line),
                    }
                    self.ctx.pop();
                    self.push(ind + 1, "}".into(), 0, false);
                }
                self.push(ind, "}".into(), 0, false);
            }
            syn::Expr::Block(b) => {
                self.push(ind, "{".into(), ln, false);
                self.block(&b.block, ind + 1);
                self.push(ind, "}".into(), 0, false);
            }
            syn::Expr::Unsafe(u) => {
                // unsafe { stmts } at statement level: contents inline (allow(unused_unsafe) blocks)
                let n = u.block.stmts.len();
                for (k, st) in u.block.stmts.iter().enumerate() {
                    match st {
                        syn::Stmt::Expr(e2, None) if k + 1 == n && semi => self.stmt_expr(e2, true, ind, ln),
                        other => self.stmt(other, ind),
                    }
                }
            }
            syn::Expr::Assign(a) => {
                if let syn::Expr::Loop(lp) = &*a.right {
                    let l = self.expr(&a.left);
                    if self.ops {
                        self.push(ind, "loop".into(), ln, false);
                        self.break_targets.push(Some(l));
                        self.loop_body(&lp.body, ind, ln);
                        self.break_targets.pop();
                        return;
                    }
                    self.push(ind, format!("{} = loop", l), ln, false);
                    self.loop_body(&lp.body, ind, ln);
                    self.lines.last_mut().unwrap().text.push(';');
                    return;
                }
                if let (Some((nm, c, la, lb)), syn::Expr::Unary(u)) = (self.link_alias.clone(), &*a.left) {
                    if matches!(u.op, syn::UnOp::Deref(_)) && toks(&*u.expr) == nm {
                        // R46: *link = E(*link)
                        self.link_subst = Some(la.clone());
                        let ra = self.expr(&a.right);
                        let pre_a: Vec<String> = self.pre.drain(..).collect();
                        self.link_subst = Some(lb.clone());
                        let rb = self.expr(&a.right);
                        let pre_b: Vec<String> = self.pre.drain(..).collect();
                        self.link_subst = None;
                        self.push(ind, format!("if {} {{", c), ln, false);
                        for p0 in pre_a { self.push(ind + 1, p0, ln, true); }
                        self.push(ind + 1, format!("{} = {};", la, ra), ln, true);
                        self.push(ind, "} else {".into(), 0, false);
                        for p0 in pre_b { self.push(ind + 1, p0, ln, true); }
                        self.push(ind + 1, format!("{} = {};", lb, rb), ln, true);
                        self.push(ind, "}".into(), 0, false);
                        return;
                    }
                }
                if self.ops && matches!(&*a.right, syn::Expr::Block(_) | syn::Expr::If(_)) {
                    // R34: X = { stmts; tail } / X = if c { .. } else { .. }: the assignment moves to the tail of every branch
                    let l = self.expr(&a.left);
                    self.assign_into(&l, &a.right, ind, ln);
                    return;
                }
                // successor_deref = TreeNode::get_tree_node(successor)  (alias reassignment)
                let l = self.expr(&a.left);
                let r = if self.aliases.contains(&l) { self.node_ptr(&a.right).unwrap_or_else(|| self.expr(&a.right)) } else { self.expr(&a.right) };
                self.push(ind, format!("{} = {};", l, r), ln, true);
            }
            syn::Expr::Return(r) => {
                let k = self.ret_count;
                self.ret_count += 1;
                self.mark(ind, format!("ret#{}", k));
                match &r.expr {
                    Some(v) => {
                        let t = self.expr(v);
                        self.push(ind, format!("return {};", t), ln, true);
                    }
                    None => self.push(ind, "return;".into(), ln, true),
                }
            }
            syn::Expr::Break(b) => match &b.expr {
                Some(v) => {
                    let t = self.expr(v);
                    if let Some(Some(tgt)) = self.break_targets.last().cloned() {
                        self.push(ind, format!("{} = {};", tgt, t), ln, true);
                        self.push(ind, "break;".into(), ln, true);
                        return;
                    }
                    self.push(ind, format!("break {};", t), ln, true);
                }
                None => self.push(ind, "break;".into(), ln, true),
            },
            syn::Expr::Continue(_) => {
                if self.ops && self.break_targets.is_empty() {
                    // an extracted match arm / closure body: `continue` of the enclosing loop leaves the extracted block
                    let k = self.ret_count;
                    self.ret_count += 1;
                    self.mark(ind, format!("ret#{}", k));
                    match self.fna_ret.clone() {
                        Some(v) => self.push(ind, format!("return {};", v), ln, true),
                        None => self.push(ind, "return;".into(), ln, true),
                    }
                } else {
                    self.push(ind, "continue;".into(), ln, true);
                }
            }
            syn::Expr::Macro(m) => {
                let n = m.mac.path.segments.last().map(|s| s.ident.to_string()).unwrap_or_default();
                match n.as_str() {
                    "debug_assert" | "debug_assert_eq" | "debug_assert_ne" => {}
                    "unreachable" => self.push(ind, "assert(false); loop invariant false decreases 0int { }".into(), ln, true),
                    _ => self.err(&format!("macro {}!", n), m.span()),
                }
            }
            syn::Expr::Binary(b) if matches!(b.op, syn::BinOp::AddAssign(_) | syn::BinOp::SubAssign(_)) => {
                let l = self.expr(&b.left);
                let r = self.expr(&b.right);
                let op = if matches!(b.op, syn::BinOp::AddAssign(_)) { "+" } else { "-" };
                self.push(ind, format!("{} = {} {} {};", l, l, op, r), ln, true);
            }
            other => {
                let t = self.expr(other);
                if t == "()" {
                    return; // removed call (R11)
                }
                if semi {
                    self.push(ind, format!("{};", t), ln, true);
                } else {
                    // tail expression = return value
                    let k = self.ret_count;
                    self.ret_count += 1;
                    self.mark(ind, format!("ret#{}", k));
                    // R14: the struct literal of TreeBin::new is a store into the arena's bin object, not a value
                    let t = if t.starts_with("h.make_bin(") { format!("{};", t) } else { t };
                    self.push(ind, t, ln, true);
                }
            }
        }
    }
}

pub struct FnBlock {
    pub key: String,
    pub header: Vec<String>,
    pub at: BTreeMap<String, Vec<String>>,
    pub loops: BTreeMap<String, Vec<String>>,
}

pub struct ArenaOut {
    pub text: String,
    pub errors: Vec<String>,
    pub extracted: Vec<serde_json::Value>,
}

fn strip_parens(e: &syn::Expr) -> &syn::Expr {
    match e {
        syn::Expr::Paren(p) => strip_parens(&p.expr),
        syn::Expr::Group(g) => strip_parens(&g.expr),
        other => other,
    }
}

/// does this loop body contain a `break <value>` of its own (not of a nested loop or closure)?
fn own_break_value(b: &syn::Block) -> bool {
    struct V(bool);
    impl<'ast> syn::visit::Visit<'ast> for V {
        fn visit_expr_loop(&mut self, _l: &'ast syn::ExprLoop) {}
        fn visit_expr_while(&mut self, _l: &'ast syn::ExprWhile) {}
        fn visit_expr_for_loop(&mut self, _l: &'ast syn::ExprForLoop) {}
        fn visit_expr_closure(&mut self, _l: &'ast syn::ExprClosure) {}
        fn visit_expr_break(&mut self, b: &'ast syn::ExprBreak) {
            if b.expr.is_some() && b.label.is_none() {
                self.0 = true;
            }
        }
    }
    let mut v = V(false);
    syn::visit::Visit::visit_block(&mut v, b);
    v.0
}

fn call_names(text: &str) -> Vec<String> {
    // names followed by '(' in the emitted text, in order
    let mut v = vec![];
    let tt = text.trim_start();
    for kw in ["continue", "break"] {
        if tt.starts_with(kw) {
            v.push(kw.to_string());
        }
    }
    // `x = ...;` is the pseudo-call assign_x (anchors that survive the removal of the calls around them)
    {
        let id: String = tt.chars().take_while(|c| c.is_ascii_alphanumeric() || *c == '_').collect();
        if !id.is_empty() && tt[id.len()..].starts_with(" = ") && id != "let" {
            v.push(format!("assign_{}", id));
        }
    }
    let b = text.as_bytes();
    let mut i = 0;
    while i < b.len() {
        if b[i].is_ascii_alphabetic() || b[i] == b'_' {
            let s = i;
            while i < b.len() && (b[i].is_ascii_alphanumeric() || b[i] == b'_') {
                i += 1;
            }
            if i < b.len() && b[i] == b'(' {
                v.push(text[s..i].to_string());
            }
        } else {
            i += 1;
        }
    }
    v
}

pub fn generate(idx: &SrcIndex, template: &str) -> ArenaOut {
    let mut out = String::new();
    let mut errors = vec![];
    let mut extracted = vec![];
    let lines: Vec<&str> = template.lines().collect();
    let mut i = 0;
    while i < lines.len() {
        let t = lines[i].trim();
        if let Some(name) = t.strip_prefix("//@CONST ") {
            // the real constant of the crate (type and initialiser text)
            match idx.consts.iter().find(|c| c.name == name.trim()) {
                Some(c) => {
                    out.push_str(&format!("pub const {}: {} = {}; // {}:{}\n", c.name, c.ty, c.expr, c.file, c.line));
                    extracted.push(serde_json::json!({"fn": format!("const {}", c.name), "file": c.file, "line_start": c.line, "line_end": c.line, "sha256": sha256_hex(&c.item_text)}));
                }
                None => errors.push(format!("lost anchor: constant {} not found", name.trim())),
            }
            i += 1;
            continue;
        }
        let fnv = t.strip_prefix("//@FNV ");
        // //@FNC <fn key> <k>: the body of the k-th closure expression inside that function, translated like a function body
        let fnc = t.strip_prefix("//@FNC ");
        let mut closure_no: Option<usize> = None;
        let fnc_key: Option<String> = fnc.map(|r| {
            let mut it = r.split_whitespace();
            let k = it.next().unwrap_or("").to_string();
            closure_no = it.next().and_then(|x| x.parse().ok());
            k
        });
        // //@FNA <fn key> <pattern prefix> <k>: the body of the k-th match arm of that function whose pattern starts with the prefix
        let fna = t.strip_prefix("//@FNA ");
        let mut arm_sel: Option<(String, usize)> = None;
        let fna_key: Option<String> = fna.map(|r| {
            let mut it = r.split_whitespace();
            let k = it.next().unwrap_or("").to_string();
            let pat = it.next().unwrap_or("").to_string();
            let n = it.next().and_then(|x| x.parse().ok()).unwrap_or(0);
            arm_sel = Some((pat, n));
            k
        });
        if let Some(key) = t.strip_prefix("//@FN ").or(fnv).or(fnc_key.as_deref()).or(fna_key.as_deref()) {
            let verbatim = fnv.is_some();
            let wrap = template.contains("//@DIALECT WRAP");
            let ops = template.contains("//@DIALECT OPS") || wrap;
            let own = template.contains("//@DIALECT OWN") || ops;
            let key = key.trim().to_string();
            // parse the block
            let mut header = vec![];
            let mut at: BTreeMap<String, Vec<String>> = BTreeMap::new();
            let mut loops: BTreeMap<String, Vec<String>> = BTreeMap::new();
            let mut cur: Option<(bool, String)> = None; // (is_loop, key)
            let mut seen_body = false;
            let mut fna_ret: Option<String> = None;
            i += 1;
            while i < lines.len() {
                let l = lines[i];
                let lt = l.trim();
                if lt == "//@END" {
                    break;
                }
                if let Some(r) = lt.strip_prefix("//@RET ") {
                    fna_ret = Some(r.trim().to_string());
                    i += 1;
                    continue;
                }
                if lt == "//@BODY" {
                    seen_body = true;
                    cur = None;
                } else if let Some(a) = lt.strip_prefix("//@AT ") {
                    cur = Some((false, a.trim().to_string()));
                    at.entry(a.trim().to_string()).or_default();
                } else if let Some(a) = lt.strip_prefix("//@ARMBODY ") {
                    let k = format!("armbody:{}", a.trim());
                    cur = Some((false, k.clone()));
                    at.entry(k).or_default();
                } else if let Some(a) = lt.strip_prefix("//@LOOP ") {
                    cur = Some((true, a.trim().to_string()));
                    loops.entry(a.trim().to_string()).or_default();
                } else if !seen_body {
                    header.push(l.to_string());
                } else if let Some((is_loop, k)) = &cur {
                    if *is_loop {
                        loops.get_mut(k).unwrap().push(l.to_string());
                    } else {
                        at.get_mut(k).unwrap().push(l.to_string());
                    }
                }
                i += 1;
            }
            i += 1;
            let closure_fn: Option<FnInfo> = match (closure_no, idx.find_fn(&key)) {
                (Some(k), Some(f0)) => {
                    struct Cl { found: Vec<syn::ExprClosure> }
                    impl<'ast> syn::visit::Visit<'ast> for Cl {
                        fn visit_expr_closure(&mut self, c: &'ast syn::ExprClosure) {
                            self.found.push(c.clone());
                            syn::visit::visit_expr_closure(self, c);
                        }
                    }
                    let mut v = Cl { found: vec![] };
                    syn::visit::Visit::visit_block(&mut v, &f0.block);
                    match v.found.get(k) {
                        Some(c) => {
                            let block: syn::Block = match &*c.body {
                                syn::Expr::Block(b) => b.block.clone(),
                                other => syn::parse_quote!({ #other }),
                            };
                            let mut f1 = f0.clone();
                            f1.line_start = c.span().start().line;
                            f1.line_end = c.span().end().line;
                            f1.block = block;
                            Some(f1)
                        }
                        None => {
                            errors.push(format!("lost anchor: function {} has no closure #{}", key, k));
                            None
                        }
                    }
                }
                _ => None,
            };
            let arm_fn: Option<FnInfo> = match (&arm_sel, idx.find_fn(&key)) {
                (Some((pat, k)), Some(f0)) => {
                    struct Ar { pat: String, found: Vec<syn::Arm> }
                    impl<'ast> syn::visit::Visit<'ast> for Ar {
                        fn visit_arm(&mut self, a: &'ast syn::Arm) {
                            if toks(&a.pat).replace(' ', "").starts_with(&self.pat) {
                                self.found.push(a.clone());
                            }
                            syn::visit::visit_arm(self, a);
                        }
                    }
                    let mut v = Ar { pat: pat.clone(), found: vec![] };
                    syn::visit::Visit::visit_block(&mut v, &f0.block);
                    match v.found.get(*k) {
                        Some(a) => {
                            let block: syn::Block = match &*a.body {
                                syn::Expr::Block(b) => b.block.clone(),
                                other => syn::parse_quote!({ #other }),
                            };
                            let mut f1 = f0.clone();
                            f1.line_start = a.span().start().line;
                            f1.line_end = a.span().end().line;
                            f1.block = block;
                            Some(f1)
                        }
                        None => {
                            errors.push(format!("lost anchor: function {} has no match arm `{}` #{}", key, pat, k));
                            None
                        }
                    }
                }
                _ => None,
            };
            let found = if closure_no.is_some() { closure_fn.as_ref() } else if arm_sel.is_some() { arm_fn.as_ref() } else { idx.find_fn(&key) };
            match found {
                None => {
                    if closure_no.is_none() && arm_sel.is_none() {
                        errors.push(format!("lost anchor: function {} not found", key));
                    }
                }
                Some(f) => {
                    let arm_bodies: BTreeMap<String, Vec<String>> = at.iter().filter_map(|(k, v)| k.strip_prefix("armbody:").map(|p0| (p0.replace(' ', ""), v.clone()))).collect();
                    let mut tx = Tx { f, lines: vec![], errors: vec![], aliases: vec![], loop_count: 0, ret_count: 0, self_is_bin: f.owner == "TreeBin" && !own, pre: vec![], tmp_count: 0, verbatim, self_ptr: own, ctx: vec![], lock_vars: vec![], value_vars: vec![], ops, wrap, break_targets: vec![], link_alias: None, link_subst: None, arm_bodies: arm_bodies.clone(), arm_bodies_used: vec![], fna_ret: fna_ret.clone() };
                    tx.block(&f.block, 1);
                    errors.extend(tx.errors.iter().cloned());
                    // resolve anchors
                    let mut counts: BTreeMap<String, usize> = BTreeMap::new();
                    let mut scounts: BTreeMap<(String, String), usize> = BTreeMap::new();
                    let mut before: BTreeMap<usize, Vec<String>> = BTreeMap::new();
                    let mut after: BTreeMap<usize, Vec<String>> = BTreeMap::new();
                    let mut used: Vec<String> = vec![];
                    for (li, l) in tx.lines.iter().enumerate() {
                        if let Some(m) = &l.marker {
                            if let Some(k) = m.strip_prefix("loop:") {
                                if let Some(v) = loops.get(k) {
                                    before.entry(li).or_default().extend(v.iter().cloned());
                                    used.push(format!("LOOP {}", k));
                                }
                            } else if let Some(v) = at.get(m) {
                                before.entry(li).or_default().extend(v.iter().cloned());
                                used.push(m.clone());
                            }
                            continue;
                        }
                        for n in call_names(&l.text) {
                            // scoped anchors: before:[<arm pattern>]name#k counts only inside that match arm
                            if !l.ctx.is_empty() {
                                let sk = scounts.entry((l.ctx.clone(), n.clone())).or_insert(0);
                                let bks = format!("before:[{}]{}#{}", l.ctx, n, *sk);
                                let aks = format!("after:[{}]{}#{}", l.ctx, n, *sk);
                                *sk += 1;
                                if let Some(v) = at.get(&bks) {
                                    before.entry(li).or_default().extend(v.iter().cloned());
                                    used.push(bks);
                                }
                                if let Some(v) = at.get(&aks) {
                                    if l.simple {
                                        after.entry(li).or_default().extend(v.iter().cloned());
                                        used.push(aks);
                                    }
                                }
                            }
                            let k = counts.entry(n.clone()).or_insert(0);
                            let bk = format!("before:{}#{}", n, *k);
                            let ak = format!("after:{}#{}", n, *k);
                            *k += 1;
                            if let Some(v) = at.get(&bk) {
                                before.entry(li).or_default().extend(v.iter().cloned());
                                used.push(bk);
                            }
                            if let Some(v) = at.get(&ak) {
                                if l.simple {
                                    after.entry(li).or_default().extend(v.iter().cloned());
                                    used.push(ak);
                                } else {
                                    errors.push(format!("lost anchor: {} in {} is not on a simple statement", ak, key));
                                }
                            }
                        }
                    }
                    // postloop:<k>: right after the closing brace of loop k
                    for (li, l) in tx.lines.iter().enumerate() {
                        if let Some(k) = l.marker.as_ref().and_then(|m| m.strip_prefix("loopend:")) {
                            let pk = format!("postloop:{}", k);
                            if let Some(v) = at.get(&pk) {
                                let mut ci = li;
                                while ci + 1 < tx.lines.len() && !(tx.lines[ci].marker.is_none() && tx.lines[ci].text == "}") { ci += 1; }
                                after.entry(ci).or_default().extend(v.iter().cloned());
                                used.push(pk);
                            }
                        }
                    }
                    // preloop:<k>: before the header line of loop k (ghost declarations the invariants mention)
                    for (li, l) in tx.lines.iter().enumerate() {
                        if let Some(k) = l.marker.as_ref().and_then(|m| m.strip_prefix("loop:")) {
                            let pk = format!("preloop:{}", k);
                            if let Some(v) = at.get(&pk) {
                                let mut hi = li;
                                while hi > 0 && (tx.lines[hi].marker.is_some() || !(tx.lines[hi].text.starts_with("loop") || tx.lines[hi].text.starts_with("while"))) { hi -= 1; }
                                before.entry(hi).or_default().extend(v.iter().cloned());
                                used.push(pk);
                            }
                        }
                    }
                    for u0 in &tx.arm_bodies_used {
                        used.push(format!("armbody:{}", u0));
                    }
                    for k in at.keys() {
                        if k != "entry" && k != "exit" && !used.contains(k) {
                            errors.push(format!("lost anchor: `{}` in {} (the call it names no longer exists at that ordinal)", k, key));
                        }
                    }
                    for k in loops.keys() {
                        if !used.contains(&format!("LOOP {}", k)) {
                            errors.push(format!("lost anchor: loop {} in {}", k, key));
                        }
                    }
                    // emit
                    out.push_str(&format!("// ---- {}  ({}:{}-{})\n", key, f.file, f.line_start, f.line_end));
                    for h in &header {
                        out.push_str(h);
                        out.push('\n');
                    }
                    out.push_str("{\n");
                    if let Some(v) = at.get("entry") {
                        for x in v {
                            out.push_str(x);
                            out.push('\n');
                        }
                    }
                    let mut body_text = String::new();
                    for (li, l) in tx.lines.iter().enumerate() {
                        if let Some(v) = before.get(&li) {
                            for x in v {
                                out.push_str(x);
                                out.push('\n');
                            }
                        }
                        if l.marker.is_none() {
                            let line = format!("{}{}{}\n", "    ".repeat(l.ind), l.text, if l.src_line > 0 { format!(" // {}:{}", f.file, l.src_line) } else { String::new() });
                            out.push_str(&line);
                            body_text.push_str(&l.text);
                            body_text.push('\n');
                        }
                        if let Some(v) = after.get(&li) {
                            for x in v {
                                out.push_str(x);
                                out.push('\n');
                            }
                        }
                    }
                    if let Some(v) = at.get("exit") {
                        for x in v {
                            out.push_str(x);
                            out.push('\n');
                        }
                    }
                    out.push_str("}\n");
                    extracted.push(serde_json::json!({"fn": key, "file": f.file, "lines": [f.line_start, f.line_end], "sha256": sha256_hex(&body_text), "translated_statements": tx.lines.iter().filter(|l| l.marker.is_none()).count()}));
                }
            }
            continue;
        }
        out.push_str(lines[i]);
        out.push('\n');
        i += 1;
    }
    ArenaOut { text: out, errors, extracted }
}
