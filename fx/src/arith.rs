//! ARITH dialect: integer snippets lifted out of the real functions.
//!
//! A template (specs/arith.vrs for Verus, specs/arith_kani.rs for Kani) holds the hand-written
//! signatures, contracts and lemmas.  Every function body in it is a directive
//!     //@EXPR <fn key> <selector>       the selected expression of the real function
//!     //@BODY <fn key>                  the whole body of the real function
//!     //@CONSTS                         the constants of src/map.rs (values from rustc const evaluation)
//!     //@MACRO <name> <param>           body of a one-parameter macro_rules! as an expression
//! which this module replaces by the text extracted from /repo's working tree on every run.
//!
//! Rewrites applied to extracted expressions (the complete list; anything else is kept verbatim):
//!   A1  Self::f(..)                         -> f(..)
//!   A2  self.F.load(ORD) / .store(v,ORD) / .fetch_add(a,ORD) / .fetch_sub(a,ORD)
//!                                           -> at_load(F) / at_store(F,v) / at_fetch_add(F,a) / at_fetch_sub(F,a)
//!       (F becomes a parameter of type &mut isize; Ordering arguments are dropped)
//!   A3  self.F.len()                        -> F_len ;   unsafe { X.deref() }.len() -> X_len
//!   A4  std::cmp::min(a,b), cmp::max(a,b)   -> (a).min(b), (a).max(b)      [definition of core::cmp::{min,max}]
//!   A5  m!(e) for a macro_rules m lifted by //@MACRO  -> m(e)
//!   A6  X.field (X a local, not self)       -> field
//!   A8  <place>.compare_exchange(a, b, ORD, ORD).is_ok()  -> cas_ok   (a bool parameter: the outcome of the CAS is an input of the snippet)
//!   A7  `as usize`/`as isize`/`as u64` casts, shifts, literals: verbatim (usize/isize are 64 bit: `global size_of usize == 8`)
use crate::emit::{sha256_hex, toks};
use crate::index::SrcIndex;
use crate::select::{parse_sel, select};
use std::collections::BTreeMap;
use syn::visit_mut::VisitMut;

pub struct Rewriter<'a> {
    pub macros: &'a [String],
}

fn is_ordering_arg(e: &syn::Expr) -> bool {
    if let syn::Expr::Path(p) = e {
        let segs: Vec<String> = p.path.segments.iter().map(|s| s.ident.to_string()).collect();
        return segs.len() >= 2 && segs[segs.len() - 2] == "Ordering";
    }
    false
}

fn self_field(e: &syn::Expr) -> Option<String> {
    if let syn::Expr::Field(f) = e {
        if let syn::Expr::Path(p) = &*f.base {
            if p.path.is_ident("self") {
                if let syn::Member::Named(i) = &f.member {
                    return Some(i.to_string());
                }
            }
        }
    }
    None
}

impl<'a> VisitMut for Rewriter<'a> {
    fn visit_expr_mut(&mut self, e: &mut syn::Expr) {
        // children first
        syn::visit_mut::visit_expr_mut(self, e);
        let new: Option<syn::Expr> = match e {
            syn::Expr::Call(c) => {
                if let syn::Expr::Path(p) = &*c.func {
                    let segs: Vec<String> = p.path.segments.iter().map(|s| s.ident.to_string()).collect();
                    if segs.len() == 2 && segs[0] == "Self" {
                        // A1
                        let f = syn::Ident::new(&segs[1], proc_macro2::Span::call_site());
                        let args = &c.args;
                        Some(syn::parse_quote!( #f ( #args ) ))
                    } else if segs.len() >= 2
                        && segs[segs.len() - 2] == "cmp"
                        && (segs[segs.len() - 1] == "min" || segs[segs.len() - 1] == "max")
                        && c.args.len() == 2
                    {
                        // A4
                        let m = syn::Ident::new(&segs[segs.len() - 1], proc_macro2::Span::call_site());
                        let a = &c.args[0];
                        let b = &c.args[1];
                        Some(syn::parse_quote!( ( #a ) . #m ( #b ) ))
                    } else {
                        None
                    }
                } else {
                    None
                }
            }
            syn::Expr::MethodCall(m) if m.method == "is_ok" && matches!(&*m.receiver, syn::Expr::MethodCall(i) if i.method == "compare_exchange") => {
                // A8
                Some(syn::parse_quote!(cas_ok))
            }
            syn::Expr::MethodCall(m) => {
                let name = m.method.to_string();
                if let Some(f) = self_field(&m.receiver) {
                    if ["load", "store", "fetch_add", "fetch_sub"].contains(&name.as_str()) {
                        // A2
                        let fun = syn::Ident::new(&format!("at_{}", name), proc_macro2::Span::call_site());
                        let fid = syn::Ident::new(&f, proc_macro2::Span::call_site());
                        let args: Vec<&syn::Expr> = m.args.iter().filter(|a| !is_ordering_arg(a)).collect();
                        Some(syn::parse_quote!( #fun ( #fid #(, #args)* ) ))
                    } else {
                        None
                    }
                } else {
                    None
                }
            }
            syn::Expr::Macro(mac) => {
                let mname = mac.mac.path.segments.last().map(|s| s.ident.to_string()).unwrap_or_default();
                if self.macros.contains(&mname) {
                    // A5
                    match syn::parse2::<syn::Expr>(mac.mac.tokens.clone()) {
                        Ok(mut inner) => {
                            self.visit_expr_mut(&mut inner);
                            let f = syn::Ident::new(&mname, proc_macro2::Span::call_site());
                            Some(syn::parse_quote!( #f ( #inner ) ))
                        }
                        Err(_) => None,
                    }
                } else {
                    None
                }
            }
            syn::Expr::Field(fe) => {
                // A6 (self.F handled by A2/A3 at the method call; a bare self.F stays)
                if let syn::Expr::Path(p) = &*fe.base {
                    if !p.path.is_ident("self") && p.path.segments.len() == 1 {
                        if let syn::Member::Named(i) = &fe.member {
                            let id = i.clone();
                            Some(syn::parse_quote!( #id ))
                        } else {
                            None
                        }
                    } else {
                        None
                    }
                } else {
                    None
                }
            }
            _ => None,
        };
        if let Some(n) = new {
            *e = n;
        }
    }
}

/// A3 has to see `self.F.len()` before A2/A6 touch the receiver, so it is a separate pre-pass.
struct LenRewriter;
impl VisitMut for LenRewriter {
    fn visit_expr_mut(&mut self, e: &mut syn::Expr) {
        if let syn::Expr::MethodCall(m) = e {
            if m.method == "len" && m.args.is_empty() {
                if let Some(f) = self_field(&m.receiver) {
                    let id = syn::Ident::new(&format!("{}_len", f), proc_macro2::Span::call_site());
                    *e = syn::parse_quote!( #id );
                    return;
                }
                // A3': unsafe { X.deref() }.len()  ->  X_len
                if let syn::Expr::Unsafe(u) = &*m.receiver {
                    if let [syn::Stmt::Expr(syn::Expr::MethodCall(d), None)] = u.block.stmts.as_slice() {
                        if d.method == "deref" {
                            if let syn::Expr::Path(p) = &*d.receiver {
                                if let Some(x) = p.path.get_ident() {
                                    let id = syn::Ident::new(&format!("{}_len", x), proc_macro2::Span::call_site());
                                    *e = syn::parse_quote!( #id );
                                    return;
                                }
                            }
                        }
                    }
                }
            }
        }
        syn::visit_mut::visit_expr_mut(self, e);
    }
}

pub struct Extracted {
    pub directive: String,
    pub fn_key: String,
    pub file: String,
    pub line: usize,
    pub text: String,
    pub sha256: String,
}

pub struct Generated {
    pub text: String,
    pub extracted: Vec<Extracted>,
    pub errors: Vec<String>,
}

fn eval_consts(idx: &SrcIndex, scratch: &std::path::Path) -> Result<BTreeMap<String, String>, String> {
    // rustc's const evaluator computes the values of the real constant items (copied verbatim)
    std::fs::create_dir_all(scratch).map_err(|e| e.to_string())?;
    let mut src = String::from("#![allow(dead_code)]\n");
    let consts: Vec<_> = idx.consts.iter().filter(|c| c.file == "src/map.rs" || c.file == "src/node.rs").collect();
    for c in &consts {
        src.push_str(&c.item_text);
        src.push('\n');
    }
    src.push_str("fn main() {\n");
    for c in &consts {
        src.push_str(&format!("    println!(\"{}={{}}\", {});\n", c.name, c.name));
    }
    src.push_str("}\n");
    let f = scratch.join("consts.rs");
    std::fs::write(&f, &src).map_err(|e| e.to_string())?;
    let exe = scratch.join("consts_bin");
    let out = std::process::Command::new("rustc")
        .arg("--edition=2021")
        .arg("-o")
        .arg(&exe)
        .arg(&f)
        .output()
        .map_err(|e| format!("rustc: {}", e))?;
    if !out.status.success() {
        return Err(format!(
            "unsupported construct: constants of src/map.rs do not const-evaluate stand-alone: {}",
            String::from_utf8_lossy(&out.stderr)
        ));
    }
    let run = std::process::Command::new(&exe).output().map_err(|e| e.to_string())?;
    let mut m = BTreeMap::new();
    for l in String::from_utf8_lossy(&run.stdout).lines() {
        if let Some((a, b)) = l.split_once('=') {
            m.insert(a.to_string(), b.to_string());
        }
    }
    Ok(m)
}

pub fn generate(idx: &SrcIndex, template: &str, scratch: &std::path::Path, want_consts: bool) -> Generated {
    let mut out = String::new();
    let mut extracted = vec![];
    let mut errors = vec![];
    // which macros are lifted?
    let mut lifted: Vec<String> = vec![];
    for l in template.lines() {
        let t = l.trim();
        if let Some(r) = t.strip_prefix("//@MACRO ") {
            if let Some(n) = r.split_whitespace().next() {
                lifted.push(n.to_string());
            }
        }
    }
    let const_vals = if want_consts {
        match eval_consts(idx, scratch) {
            Ok(m) => m,
            Err(e) => {
                errors.push(e);
                BTreeMap::new()
            }
        }
    } else {
        BTreeMap::new()
    };
    for line in template.lines() {
        let t = line.trim();
        let ind: String = line.chars().take_while(|c| c.is_whitespace()).collect();
        if !t.starts_with("//@") {
            out.push_str(line);
            out.push('\n');
            continue;
        }
        let parts: Vec<&str> = t[3..].split_whitespace().collect();
        match parts.as_slice() {
            ["CONSTS"] | ["CONSTS", _] => {
                let file = if parts.len() == 2 { format!("src/{}.rs", parts[1]) } else { "src/map.rs".to_string() };
                for c in idx.consts.iter().filter(|c| c.file == file) {
                    match const_vals.get(&c.name) {
                        Some(v) => {
                            out.push_str(&format!(
                                "{}pub const {}: {} = {}; // {}:{}: = {}\n",
                                ind, c.name, c.ty, v, c.file, c.line, c.expr
                            ));
                            extracted.push(Extracted {
                                directive: "CONSTS".into(),
                                fn_key: c.name.clone(),
                                file: c.file.clone(),
                                line: c.line,
                                text: format!("{} = {}", c.expr, v),
                                sha256: sha256_hex(&c.item_text),
                            });
                        }
                        None => errors.push(format!("lost anchor: constant {} has no value", c.name)),
                    }
                }
            }
            ["MACRO", name, param] => match idx.macros.iter().find(|m| m.name == *name) {
                Some(m) => {
                    // macro_rules! name { ($p: expr) => { BODY }; }
                    let toks: Vec<proc_macro2::TokenTree> = m.tokens.clone().into_iter().collect();
                    let mut body: Option<proc_macro2::TokenStream> = None;
                    for (i, tt) in toks.iter().enumerate() {
                        if let proc_macro2::TokenTree::Punct(p) = tt {
                            if p.as_char() == '>' && i > 0 {
                                if let Some(proc_macro2::TokenTree::Group(g)) = toks.get(i + 1) {
                                    body = Some(g.stream());
                                    break;
                                }
                            }
                        }
                    }
                    match body {
                        Some(b) => {
                            let s = b.to_string().replace(&format!("$ {}", param), param).replace(&format!("${}", param), param);
                            match syn::parse_str::<syn::Expr>(&s) {
                                Ok(e) => {
                                    let text = toks_expr(&e);
                                    out.push_str(&format!("{}{} // {}:{} macro_rules! {}\n", ind, text, m.file, m.line, name));
                                    extracted.push(Extracted {
                                        directive: t.to_string(),
                                        fn_key: format!("macro {}", name),
                                        file: m.file.clone(),
                                        line: m.line,
                                        sha256: sha256_hex(&text),
                                        text,
                                    });
                                }
                                Err(e) => errors.push(format!("unsupported construct: macro {} body is not an expression: {}", name, e)),
                            }
                        }
                        None => errors.push(format!("unsupported construct: macro {} shape", name)),
                    }
                }
                None => errors.push(format!("lost anchor: macro_rules! {} not found", name)),
            },
            ["EXPR", key, sel] => match idx.find_fn(key) {
                Some(f) => match parse_sel(sel).and_then(|s| select(f, &s)) {
                    Ok((mut e, ln)) => {
                        LenRewriter.visit_expr_mut(&mut e);
                        Rewriter { macros: &lifted }.visit_expr_mut(&mut e);
                        let text = toks_expr(&e);
                        out.push_str(&format!("{}{} // {}:{} {} {}\n", ind, text, f.file, ln, key, sel));
                        extracted.push(Extracted {
                            directive: t.to_string(),
                            fn_key: key.to_string(),
                            file: f.file.clone(),
                            line: ln,
                            sha256: sha256_hex(&text),
                            text,
                        });
                    }
                    Err(e) => errors.push(e),
                },
                None => errors.push(format!("lost anchor: function {} not found", key)),
            },
            ["BODY", key] => match idx.find_fn(key) {
                Some(f) => {
                    let mut b = f.block.clone();
                    let mut all = String::new();
                    for st in b.stmts.iter_mut() {
                        LenRewriter.visit_stmt_mut(st);
                        Rewriter { macros: &lifted }.visit_stmt_mut(st);
                        let text = toks(st);
                        out.push_str(&format!("{}{} // {}:{} {}\n", ind, text, f.file, f.line_start, key));
                        all.push_str(&text);
                        all.push('\n');
                    }
                    extracted.push(Extracted {
                        directive: t.to_string(),
                        fn_key: key.to_string(),
                        file: f.file.clone(),
                        line: f.line_start,
                        sha256: sha256_hex(&all),
                        text: all,
                    });
                }
                None => errors.push(format!("lost anchor: function {} not found", key)),
            },
            _ => errors.push(format!("template error: bad directive `{}`", t)),
        }
    }
    Generated { text: out, extracted, errors }
}

fn toks_expr(e: &syn::Expr) -> String {
    // an expression spliced into a template position must stay one syntactic unit
    match e {
        syn::Expr::Binary(_) | syn::Expr::Cast(_) | syn::Expr::Unary(_) => format!("({})", toks(e)),
        _ => toks(e),
    }
}
