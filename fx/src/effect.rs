//! EFFECT dialect, part 4: summaries, contracts and Verus rendering of the skeletons.
use crate::effect_ir::*;
use crate::effect_ty::*;
use crate::effect_walk::*;
use crate::emit::sha256_hex;
use crate::index::SrcIndex;
use serde_json::{json, Value};
use std::collections::{BTreeMap, BTreeSet};

fn strset(v: &Value, k: &str) -> BTreeSet<String> {
    v.get(k).and_then(|x| x.as_array()).map(|a| a.iter().filter_map(|s| s.as_str().map(|s| s.to_string())).collect()).unwrap_or_default()
}

#[derive(Default, Clone)]
struct Sum {
    may_lock: bool,
    may_wait: bool,
    may_callback: bool,
    has_ctl: bool,
    has_tbl: bool,
    needs_ok: BTreeSet<usize>,
    needs_prot: BTreeSet<usize>,
    /// frame counters this function may bump as seen by a caller sharing its frame
    bumps: BTreeSet<String>,
    /// sets or clears the "half-removed tree node" flag (FV.pend)
    touches_pend: bool,
    /// reaches a retire (which requires that no half-removed node is pending)
    needs_nopend: bool,
}

pub struct EffectOut {
    pub text: String,
    pub report: Value,
    pub errors: Vec<String>,
}

/// a configured ledger clause can only be emitted if every local it names is a tracked boolean of the skeleton
fn clause_names_ok(clause: &str, declared: &std::collections::BTreeSet<String>) -> bool {
    let allow = ["f", "lk", "lv", "fr", "nat", "int", "if", "else", "true", "false", "old", "final", "r", "v"];
    let code = clause.split("/*").next().unwrap_or(clause).split("//").next().unwrap_or(clause);
    let b = code.as_bytes();
    let mut i = 0;
    while i < b.len() {
        if b[i].is_ascii_lowercase() || b[i] == b'_' {
            let s0 = i;
            while i < b.len() && (b[i].is_ascii_alphanumeric() || b[i] == b'_') { i += 1; }
            let id = &code[s0..i];
            let prev_dot = s0 > 0 && b[s0 - 1] == b'.';
            let next_paren = i < b.len() && b[i] == b'(';
            let snapshot = id.len() >= 3 && id.starts_with('l') && id.ends_with('f') && id[1..id.len() - 1].chars().all(|c| c.is_ascii_digit());
            if !prev_dot && !next_paren && !snapshot && !allow.contains(&id) && !id.ends_with("nat") && !declared.contains(id) {
                return false;
            }
        } else if b[i].is_ascii_digit() {
            while i < b.len() && (b[i].is_ascii_alphanumeric() || b[i] == b'_') { i += 1; }
        } else {
            i += 1;
        }
    }
    true
}

fn walk_all<'x>(stmts: &'x [Sk], f: &mut dyn FnMut(&'x Sk)) {
    for s in stmts {
        f(s);
        match s {
            Sk::If { then, els, .. } => {
                walk_all(then, f);
                walk_all(els, f);
            }
            Sk::Loop { body, .. } => walk_all(body, f),
            _ => {}
        }
    }
}

pub fn generate(idx: &SrcIndex, prelude: &str, cfgv: &Value) -> EffectOut {
    let cfg = Cfg {
        primitive_fns: strset(cfgv, "primitive_fns"),
        owned_fns: strset(cfgv, "owned_fns"),
        store_bin_roles: cfgv
            .get("store_bin_roles")
            .and_then(|v| v.as_object())
            .map(|o| {
                o.iter()
                    .map(|(k, v)| (k.clone(), v.as_object().map(|m| m.iter().map(|(a, b)| (a.clone(), b.as_str().unwrap_or("").to_string())).collect()).unwrap_or_default()))
                    .collect()
            })
            .unwrap_or_default(),
        forbid_panic: strset(cfgv, "forbid_panic"),
        skip_files: strset(cfgv, "skip_files"),
        old_bin_ledger: strset(cfgv, "old_bin_ledger"),
    };
    let held11 = strset(cfgv, "held11");
    let pend_on_true = strset(cfgv, "pend_on_true");
    let mut inherit_frame = strset(cfgv, "inherit_frame");
    // functions that run inside the caller's critical section (class h11) work in the caller's frame:
    // their unlinking writes count for the caller's later retire
    inherit_frame.extend(held11.iter().cloned());
    let read_paths = strset(cfgv, "read_paths");
    let no_props: BTreeMap<String, Value> = BTreeMap::new();
    let extra: BTreeMap<String, Value> = cfgv.get("extra").and_then(|v| v.as_object()).map(|o| o.iter().map(|(k, v)| (k.clone(), v.clone())).collect()).unwrap_or(no_props);

    let mut by_name: BTreeMap<String, Vec<usize>> = BTreeMap::new();
    for (i, f) in idx.fns.iter().enumerate() {
        if cfg.skip_files.contains(&f.file) {
            continue;
        }
        by_name.entry(f.name.clone()).or_default().push(i);
    }
    let mut sks: Vec<FnSk> = vec![];
    let mut errors = vec![];
    for (i, f) in idx.fns.iter().enumerate() {
        if cfg.skip_files.contains(&f.file) || cfg.primitive_fns.contains(&f.key) {
            continue;
        }
        let w = Walker::new(idx, &cfg, f, &by_name, i);
        let sk = w.walk_fn();
        errors.extend(sk.errors.iter().cloned());
        sks.push(sk);
    }
    let pos: BTreeMap<String, usize> = sks.iter().enumerate().map(|(i, s)| (s.key.clone(), i)).collect();
    // calls to functions that have no skeleton (skipped files) are errors
    for s in &sks {
        walk_all(&s.body, &mut |x| {
            if let Sk::Call { callee, line, .. } = x {
                if !pos.contains_key(callee) {
                    errors.push(format!("lost anchor: {} (line {}) calls `{}` which has no skeleton", s.key, line, callee));
                }
            }
        });
    }

    // ---------------- summaries (fixpoint over the call graph)
    let all_guards = |s: &FnSk| -> Vec<String> {
        let mut v = vec![];
        if s.has_self_guard {
            v.push("g_self".to_string());
        }
        for g in &s.guards {
            v.push(format!("g_{}", g));
        }
        for g in &s.extra_guards {
            v.push(g.clone());
        }
        v
    };
    let mut sums: Vec<Sum> = vec![Sum::default(); sks.len()];
    loop {
        let mut changed = false;
        for (i, s) in sks.iter().enumerate() {
            let mut n = sums[i].clone();
            let gs = all_guards(s);
            walk_all(&s.body, &mut |x| match x {
                Sk::Ev { name, args, .. } => {
                    if let Some(c) = ev_counter(name) {
                        n.bumps.insert(c.to_string());
                    }
                    match name.as_str() {
                        "ev_store_bin" => n.touches_pend = true,
                        "ev_retire" | "ev_retire_value" | "ev_retire_node" => n.needs_nopend = true,
                        "ev_lock" | "ev_unlock" | "ev_validate" => n.may_lock = true,
                        "ev_wait" => n.may_wait = true,
                        "ev_callback" => n.may_callback = true,
                        "ev_ctl_store" => n.has_ctl = true,
                        "ev_write_table" | "ev_write_next_table" => n.has_tbl = true,
                        _ => {}
                    }
                    if matches!(name.as_str(), "ev_use" | "ev_retire" | "ev_retire_value" | "ev_retire_node" | "ev_store_guard") && args.get(1).map(|r| r == "1").unwrap_or(false) {
                        if let Some(k) = gs.iter().position(|g| Some(g) == args.first()) {
                            n.needs_ok.insert(k);
                        }
                    }
                    if name == "ev_retire" || name == "ev_retire_value" || name == "ev_retire_node" {
                        if let Some(k) = gs.iter().position(|g| Some(g) == args.first()) {
                            n.needs_prot.insert(k);
                        }
                    }
                }
                Sk::Cas { name, .. } => {
                    if name == "ev_cas_ctl" {
                        n.has_ctl = true;
                    }
                }
                Sk::Call { callee, guards, root, .. } => {
                    if let Some(&j) = pos.get(callee) {
                        let c = &sums[j];
                        n.may_lock |= c.may_lock;
                        n.may_wait |= c.may_wait;
                        n.may_callback |= c.may_callback;
                        n.has_ctl |= c.has_ctl;
                        n.has_tbl |= c.has_tbl;
                        n.touches_pend |= c.touches_pend || pend_on_true.contains(callee);
                        n.needs_nopend |= c.needs_nopend || c.touches_pend;
                        if inherit_frame.contains(callee) {
                            for b in &c.bumps {
                                n.bumps.insert(b.clone());
                            }
                        }
                        for (k, g) in guards.iter().enumerate() {
                            if let Some(mine) = gs.iter().position(|x| x == g) {
                                if c.needs_ok.contains(&k) && *root == 1 && !entry_public(&sks[j]) {
                                    n.needs_ok.insert(mine);
                                }
                                if c.needs_prot.contains(&k) {
                                    n.needs_prot.insert(mine);
                                }
                            }
                        }
                    }
                }
                _ => {}
            });
            if n.may_lock != sums[i].may_lock
                || n.may_wait != sums[i].may_wait
                || n.may_callback != sums[i].may_callback
                || n.has_ctl != sums[i].has_ctl
                || n.has_tbl != sums[i].has_tbl
                || n.needs_ok != sums[i].needs_ok
                || n.needs_prot != sums[i].needs_prot
                || n.bumps != sums[i].bumps
                || n.touches_pend != sums[i].touches_pend
                || n.needs_nopend != sums[i].needs_nopend
            {
                sums[i] = n;
                changed = true;
            }
        }
        if !changed {
            break;
        }
    }

    // ---------------- render
    let mut body_txt = String::new();
    let mut fn_reports = vec![];
    let mut dropped_clauses: Vec<Value> = vec![];
    let mclass: Vec<bool> = sums.iter().map(|s| s.may_lock || s.may_wait || s.touches_pend).collect();
    for (i, s) in sks.iter().enumerate() {
        let sm = &sums[i];
        let public = entry_public(s);
        let gs = all_guards(s);
        let h11 = held11.contains(&s.key);
        let m = mclass[i];
        let class = if h11 { "h11" } else if sm.may_lock { "h00" } else { "hany" };
        let inherit = inherit_frame.contains(&s.key);
        let ex = extra.get(&s.key);
        let exlist = |k: &str| -> Vec<String> { ex.and_then(|e| e.get(k)).and_then(|v| v.as_array()).map(|a| a.iter().filter_map(|x| x.as_str().map(|s| s.to_string())).collect()).unwrap_or_default() };
        let (olk, flk) = if m { ("old(lk).v()", "final(lk).v()") } else { ("lv", "lv") };

        let mut req: Vec<String> = vec!["r > 0".to_string()];
        let mut ens: Vec<String> = vec![];
        match class {
            "h11" => {
                req.push(format!("{}.held == 1 && {}.validated,   // OBL:C08,C10,C11:callee_runs_under_the_validated_bin_lock", olk, olk));
                if m {
                    ens.push(format!("{}.held == 1, {}.validated", flk, flk));
                }
            }
            "h00" => {
                req.push(format!("{}.held == 0,   // OBL:C11:no_bin_lock_held_when_calling_a_locking_function", olk));
                ens.push(format!("{}.held == 0", flk));
            }
            _ => {
                if m {
                    ens.push(format!("{}.held == {}.held, {}.validated == {}.validated", flk, olk, flk, olk));
                }
            }
        }
        for (k, g) in gs.iter().enumerate() {
            // guard_ok is never required of a public entry point (it has to establish it itself), except for the
            // iterator types, whose field guard was checked when the iterator was built (type invariant)
            if (sm.needs_ok.contains(&k) && !public) || (g == "g_self" && ITERS.contains(&s.owner.as_str())) {
                req.push(format!("guard_ok({}, r),   // OBL:C09,C03:callee_needs_checked_guard", g));
            }
            // protected(g) is required exactly where a retire is reachable; for a public entry point this is the
            // assumption that user-supplied guards are protected (creating an unprotected guard is `unsafe`)
            if sm.needs_prot.contains(&k) {
                req.push(format!("protected({}),   // OBL:C03:callee_needs_protected_guard", g));
            }
        }
        if let (Some(t), Some(g)) = (&s.ret_ty, gs.first()) {
            if ITERS.contains(&t.as_str()) {
                ens.push(format!("guard_ok({}, r),   // OBL:C09:iterator_built_only_with_checked_guard", g));
            }
        }
        if inherit {
            for c in ["wsv", "nts", "allocs", "vret", "nret"] {
                let op = if sm.bumps.contains(c) { ">=" } else { "==" };
                ens.push(format!("final(f).v().{} {} old(f).v().{}", c, op, c));
            }
            ens.push("final(f).v().nt_cleared == old(f).v().nt_cleared, final(f).v().tbl_swapped == old(f).v().tbl_swapped".into());
        } else {
            ens.push("frame_eq(final(f).v(), old(f).v())".into());
        }
        ens.push(if sm.may_callback { "final(f).v().callbacks >= old(f).v().callbacks".into() } else { "final(f).v().callbacks == old(f).v().callbacks".into() });
        if !sm.has_ctl {
            ens.push("final(f).v().ctl_won == old(f).v().ctl_won".into());
        }
        // half-removed tree node protocol: remove_tree_node may return `true` with the node taken off the traversal list only;
        // the caller has to replace the bin before anything is retired, and before it returns
        if sm.touches_pend || sm.needs_nopend {
            req.push(format!("!{}.pend,   // OBL:C03:no_half_removed_node_pending_at_call", olk));
        }
        if m {
            if sm.touches_pend {
                ens.push(format!("!{}.pend,   // OBL:C03:bin_replaced_before_the_operation_returns", flk));
            } else {
                ens.push(format!("{}.pend == {}.pend", flk, olk));
            }
        }
        if m {
            ens.push(if sm.may_lock { format!("{}.locks_taken >= {}.locks_taken", flk, olk) } else { format!("{}.locks_taken == {}.locks_taken", flk, olk) });
            ens.push(if sm.may_wait { format!("{}.waits >= {}.waits", flk, olk) } else { format!("{}.waits == {}.waits", flk, olk) });
        }
        if read_paths.contains(&s.key) {
            if m {
                ens.push(format!("{}.locks_taken == {}.locks_taken,   // OBL:C12:read_path_takes_no_lock", flk, olk));
                ens.push(format!("{}.waits == {}.waits,               // OBL:C12:read_path_never_waits", flk, olk));
            } else {
                // the function receives the lock state as a read-only ghost value: it has no way to lock or wait
                ens.push("true,   // OBL:C12:read_path_has_no_lock_or_wait_capability (lock state is passed read-only)".into());
            }
        }
        req.extend(exlist("requires"));
        ens.extend(exlist("ensures"));

        let mut params = vec![if m { "lk: &mut L".to_string() } else { "Ghost(lv): Ghost<LV>".to_string() }, "f: &mut F".to_string(), "Ghost(r): Ghost<int>".to_string()];
        for g in &gs {
            params.push(format!("{}: &G", g));
        }
        for b in &s.bools {
            params.push(format!("p_{}: bool", b));
        }
        let props = fn_props(s, public, &read_paths, &cfg);
        let mut t = String::new();
        t.push_str(&format!("\n// ---- {}   ({}:{})  class={} lock-state={} public={}\n", s.key, s.file, s.line, class, if m { "mutable" } else { "read-only" }, public));
        t.push_str(&format!("//# props={}\n", props.join(",")));
        t.push_str("#[verifier::exec_allows_no_decreases_clause]\n#[verifier::loop_isolation(false)]\n#[verifier::allow_complex_invariants]\n");
        t.push_str(&format!("fn {}({}){}\n    requires\n", s.ident, params.join(", "), if s.returns_bool { " -> (ret: bool)" } else { "" }));
        for r in &req {
            if r.contains("// OBL:") {
                t.push_str(&format!("        {}\n", r));
            } else {
                t.push_str(&format!("        {},\n", r.trim_end_matches(',')));
            }
        }
        t.push_str("    ensures\n");
        for e in &ens {
            if e.contains("// OBL:") {
                t.push_str(&format!("        {}\n", e));
            } else {
                t.push_str(&format!("        {},\n", e.trim_end_matches(',')));
            }
        }
        t.push_str("{\n");
        // locals a configured clause may name: the tracked booleans of this skeleton (and its bool parameters)
        let mut declared: std::collections::BTreeSet<String> = std::collections::BTreeSet::new();
        walk_all(&s.body, &mut |x| if let Sk::Decl { name, .. } = x { declared.insert(name.clone()); });
        for b in &s.bools { declared.insert(b.clone()); declared.insert(format!("p_{}", b)); }
        let exit_ok: Vec<String> = exlist("exit_assert").into_iter().filter(|c| {
            let ok = clause_names_ok(c, &declared);
            if !ok { dropped_clauses.push(json!({"fn": s.key, "clause": c})); }
            ok
        }).collect();
        let loops_cfg: Option<Value> = ex.and_then(|e| e.get("loops")).cloned().map(|mut lv| {
            if let Some(obj) = lv.as_object_mut() {
                for (_, per) in obj.iter_mut() {
                    if let Some(po) = per.as_object_mut() {
                        for (_, arr) in po.iter_mut() {
                            if let Some(a) = arr.as_array_mut() {
                                a.retain(|c| {
                                    let t = c.as_str().unwrap_or("");
                                    let ok = clause_names_ok(t, &declared);
                                    if !ok { dropped_clauses.push(json!({"fn": s.key, "clause": t})); }
                                    ok
                                });
                            }
                        }
                    }
                }
            }
            lv
        });
        let mut pr = Printer { out: String::new(), pos: &pos, sums: &sums, mclass: &mclass, m, inherit, extra_loops: loops_cfg, loop_stack: vec![], inherit_set: &inherit_frame, cut_id: 0, exit_asserts: exit_ok.clone(), returns_bool: s.returns_bool, pend_callees: &pend_on_true, use_cuts: { let mut n = 0; walk_all(&s.body, &mut |x| if let Sk::Ev { name, .. } = x { if ev_counter(name).is_some() { n += 1; } }); n >= 30 } };
        if !inherit {
            pr.out.push_str("    let fr = ev_frame_enter(f);\n");
        }
        pr.stmts(&s.body, 1);
        for x in &exit_ok {
            pr.out.push_str(&format!("    assert({});\n", x));
        }
        if !inherit {
            pr.out.push_str("    ev_frame_exit(f, fr);\n");
        }
        if s.returns_bool {
            pr.out.push_str("    nondet()\n");
        }
        t.push_str(&pr.out);
        t.push_str("}\n");
        fn_reports.push(json!({
            "key": s.key, "file": s.file, "line": s.line, "class": class, "lock_state_mutable": m, "public_entry": public, "props": props,
            "guards": gs, "needs_ok": sm.needs_ok.iter().collect::<Vec<_>>(), "needs_protected": sm.needs_prot.iter().collect::<Vec<_>>(),
            "may_lock": sm.may_lock, "may_wait": sm.may_wait, "may_callback": sm.may_callback,
            "sha256": sha256_hex(&t), "unresolved": s.unresolved, "ambiguous": s.ambiguous,
        }));
        body_txt.push_str(&t);
    }
    let text = prelude.replace("//@SKELETONS", &body_txt);
    let unresolved: Vec<String> = sks.iter().flat_map(|s| s.unresolved.iter().cloned()).collect();
    let report = json!({ "functions": fn_reports, "unresolved_calls": unresolved, "errors": errors, "dropped_clauses": dropped_clauses });
    EffectOut { text, report, errors }
}

const ITERS: [&str; 4] = ["Iter", "Keys", "Values", "NodeIter"];

fn entry_public(s: &FnSk) -> bool {
    // public API surface: pub fns and trait impls of the user-facing types
    let user_types = ["HashMap", "HashSet", "HashMapRef", "HashSetRef", "Iter", "Keys", "Values", "HashMapVisitor", "HashSetVisitor"];
    s.is_pub && user_types.contains(&s.owner.as_str())
}

fn fn_props(s: &FnSk, public: bool, read_paths: &BTreeSet<String>, cfg: &Cfg) -> Vec<String> {
    // which properties' checks report an otherwise untagged failure inside this function
    let mut p = vec![];
    if public {
        p.push("C09");
    }
    if read_paths.contains(&s.key) {
        p.push("C12");
    }
    if cfg.forbid_panic.contains(&s.key) {
        p.push("C19");
    }
    let mut has = |n: &str| contains_ev(&s.body, &|x| matches!(x, Sk::Ev { name, .. } if name == n));
    if has("ev_callback") {
        p.push("C08");
        p.push("C18");
    }
    if has("ev_retire") || has("ev_retire_value") || has("ev_retire_node") {
        p.push("C03");
    }
    if has("ev_retire_value") || has("ev_retire_node") {
        p.push("C04");
    }
    if has("ev_lock") {
        p.push("C11");
    }
    if s.key == "HashMap::transfer" || s.key == "HashMap::help_transfer" || s.key == "HashMap::add_count" || s.key == "HashMap::try_presize" {
        p.push("C10");
    }
    p.sort();
    p.dedup();
    p.into_iter().map(|s| s.to_string()).collect()
}

struct Printer<'a> {
    out: String,
    pos: &'a BTreeMap<String, usize>,
    sums: &'a [Sum],
    mclass: &'a [bool],
    /// this function receives the lock state mutably
    m: bool,
    inherit: bool,
    extra_loops: Option<Value>,
    loop_stack: Vec<usize>,
    inherit_set: &'a BTreeSet<String>,
    cut_id: usize,
    exit_asserts: Vec<String>,
    returns_bool: bool,
    /// functions whose `true` result means "node taken off the traversal list only" (see LV.pend)
    pend_callees: &'a BTreeSet<String>,
    /// merge-point lemmas are only emitted for functions with very many write events (solver cost)
    use_cuts: bool,
}

fn gref(g: &str) -> String {
    if g.starts_with("g_own_") || g.starts_with("g_unprot_") {
        format!("&{}", g)
    } else {
        g.to_string()
    }
}
fn rootref(r: &str) -> String {
    // the function's own map is `r`; every other map object it handles is a distinct positive id
    if r == "1" { "Ghost(r)".to_string() } else { format!("Ghost(r + {})", r.parse::<i64>().unwrap_or(2) - 1) }
}

impl<'a> Printer<'a> {
    fn ind(n: usize) -> String {
        "    ".repeat(n)
    }
    fn lkx(&self) -> &'static str {
        if self.m { "Ghost(lk.v())" } else { "Ghost(lv)" }
    }
    fn cond(c: &Cond) -> String {
        match c {
            Cond::Nondet => "nondet()".into(),
            Cond::Var(v, neg) => if *neg { format!("!{}", v) } else { v.clone() },
        }
    }
    fn callee_bumps(&self, callee: &str, c: &str) -> bool {
        match self.pos.get(callee) {
            Some(&j) => match c {
                "callbacks" => self.sums[j].may_callback,
                // frame-local counters are restored by the callee's frame, unless it inherits the caller's frame
                "wsv" | "allocs" | "vret" | "nret" | "nts" => self.inherit_set.contains(callee) && self.sums[j].bumps.contains(c),
                _ => false,
            },
            None => false,
        }
    }
    fn body_has(&self, body: &[Sk], what: &str) -> bool {
        let mut r = false;
        walk_all(body, &mut |x| match x {
            Sk::Ev { name, .. } => {
                r |= match what {
                    "lock" => name == "ev_lock",
                    "wait" => name == "ev_wait",
                    "reset_wsv" => name == "ev_lock" || name == "ev_validate",
                    "ctl" => name == "ev_ctl_store",
                    "tbl" => name == "ev_write_table" || name == "ev_write_next_table",
                    "pend" => name == "ev_store_bin",
                    "validate" => name == "ev_lock" || name == "ev_unlock" || name == "ev_validate",
                    "lk" => name == "ev_lock" || name == "ev_unlock" || name == "ev_validate" || name == "ev_wait" || name == "ev_store_bin" || name == "ev_pend_set",
                    _ => false,
                }
            }
            Sk::Cas { name, .. } => {
                if what == "ctl" && name == "ev_cas_ctl" {
                    r = true;
                }
            }
            Sk::Call { callee, .. } => {
                if let Some(&j) = self.pos.get(callee) {
                    let s = &self.sums[j];
                    r |= match what {
                        "lock" => s.may_lock,
                        "wait" => s.may_wait,
                        "ctl" => s.has_ctl,
                        "pend" => s.touches_pend || self.pend_callees.contains(callee),
                        "validate" => s.may_lock,
                        "lk" => self.mclass[j] || self.pend_callees.contains(callee),
                        _ => false,
                    };
                }
            }
            _ => {}
        });
        r
    }

    fn stmts(&mut self, ss: &[Sk], d: usize) {
        for s in ss {
            self.stmt(s, d);
        }
    }
    fn stmt(&mut self, s: &Sk, d: usize) {
        let i = Self::ind(d);
        match s {
            Sk::Comment(c) => self.out.push_str(&format!("{}// {}\n", i, c)),
            Sk::Raw(c) => self.out.push_str(&format!("{}{}\n", i, c)),
            Sk::Ev { name, args, line, src } => {
                let a: Vec<String> = match name.as_str() {
                    "ev_check" | "ev_use" | "ev_store_guard" => vec![gref(&args[0]), rootref(&args[1])],
                    "ev_retire" => vec![self.lkx().into(), "Ghost(f.v())".into(), gref(&args[0]), rootref(&args[1])],
                    "ev_retire_value" | "ev_retire_node" => vec![self.lkx().into(), "f".into(), gref(&args[0]), rootref(&args[1])],
                    "ev_store_bin" => vec!["lk".into(), "f".into()],
                    "ev_lock" | "ev_validate" => vec!["lk".into(), "f".into()],
                    "ev_unlock" | "ev_wait" => vec!["lk".into()],
                    "ev_write_lk" | "ev_store_nt_bin" | "ev_store_marker" | "ev_swap_waiter" | "ev_callback" => vec![self.lkx().into(), "f".into()],
                    "ev_write_owned" | "ev_ctl_store" | "ev_write_table" | "ev_write_next_table" | "ev_alloc" => vec!["f".into()],
                    _ => vec![],
                };
                self.out.push_str(&format!("{}{}({}); // {}: {}\n", i, name, a.join(", "), line, src.replace('\n', " ")));
            }
            Sk::Cas { name, result, line, src, .. } => {
                let arg = match name.as_str() {
                    "ev_cas_ctl" => "f".to_string(),
                    "ev_cas_bin_locked" => format!("{}, f", self.lkx()),
                    _ => String::new(),
                };
                self.out.push_str(&format!("{}let {} = {}({}); // {}: {}\n", i, result, name, arg, line, src.replace('\n', " ")));
            }
            Sk::MkGuard { name, how, root, line } => {
                if how == "own" {
                    self.out.push_str(&format!("{}let {} = mk_own({}); // {}\n", i, name, rootref(&root.to_string()), line));
                } else {
                    self.out.push_str(&format!("{}let {} = mk_unprotected(); // {}\n", i, name, line));
                }
            }
            Sk::Call { callee, root, guards, bools, line, result } => {
                let id = sk_ident(callee);
                let cm = self.pos.get(callee).map(|&j| self.mclass[j]).unwrap_or(false);
                let mut a = vec![if cm { "lk".to_string() } else { self.lkx().to_string() }, "f".to_string(), rootref(&root.to_string())];
                for g in guards {
                    a.push(gref(g));
                }
                for b in bools {
                    a.push(b.text());
                }
                match result {
                    Some(r) => self.out.push_str(&format!("{}let {} = {}({}); // {}\n", i, r, id, a.join(", "), line)),
                    None => self.out.push_str(&format!("{}{}({}); // {}\n", i, id, a.join(", "), line)),
                }
                // the callee returns `true` when it took a tree node off the traversal list only (see LV.pend)
                if self.pend_callees.contains(callee) {
                    match result {
                        Some(r) => self.out.push_str(&format!("{}if {} {{ ev_pend_set(lk); }}\n", i, r)),
                        None => self.out.push_str(&format!("{}if nondet() {{ ev_pend_set(lk); }}\n", i)),
                    }
                }
            }
            Sk::Decl { name, init } => self.out.push_str(&format!("{}let mut {}: bool = {};\n", i, name, init.text())),
            Sk::Set { name, val } => self.out.push_str(&format!("{}{} = {};\n", i, name, val.text())),
            Sk::If { cond, then, els, .. } => {
                if then.is_empty() && els.is_empty() {
                    return;
                }
                // merge-point lemma: the frame counters are monotone across a branch without lock/validate; stating it
                // after the merge keeps the solver from re-deriving it once per path (no effect on what is proved)
                let modifies = |b: &[Sk]| contains_ev(b, &|x| matches!(x, Sk::Ev { name, .. } if ev_counter(name).is_some()) || matches!(x, Sk::Call { .. }));
                let resets = |b: &[Sk]| contains_ev(b, &|x| matches!(x, Sk::Ev { name, .. } if name == "ev_lock" || name == "ev_validate"));
                let cut = self.use_cuts && (modifies(then) || modifies(els)) && !resets(then) && !resets(els);
                self.cut_id += 1;
                let cid = self.cut_id;
                if cut {
                    self.out.push_str(&format!("{}let ghost c{} = f.v();\n", i, cid));
                }
                self.out.push_str(&format!("{}if {} {{\n", i, Self::cond(cond)));
                self.stmts(then, d + 1);
                if els.is_empty() {
                    self.out.push_str(&format!("{}}}\n", i));
                } else {
                    self.out.push_str(&format!("{}}} else {{\n", i));
                    self.stmts(els, d + 1);
                    self.out.push_str(&format!("{}}}\n", i));
                }
                if cut {
                    let me = self as *const Printer;
                    let cb = |callee: &str, cc: &str| -> bool { unsafe { (*me).callee_bumps(callee, cc) } };
                    let parts: Vec<String> = COUNTERS.iter().map(|c| {
                        let bumped = contains_bump(then, c, &cb) || contains_bump(els, c, &cb);
                        format!("f.v().{} {} c{}.{}", c, if bumped { ">=" } else { "==" }, cid, c)
                    }).collect();
                    self.out.push_str(&format!("{}assert({});\n", i, parts.join(" && ")));
                }
            }
            Sk::Break(t) => {
                if self.loop_stack.last() == Some(t) {
                    self.out.push_str(&format!("{}break;\n", i));
                } else {
                    self.out.push_str(&format!("{}break 'l{};\n", i, t));
                }
            }
            Sk::Continue(t) => {
                if self.loop_stack.last() == Some(t) {
                    self.out.push_str(&format!("{}continue;\n", i));
                } else {
                    self.out.push_str(&format!("{}continue 'l{};\n", i, t));
                }
            }
            Sk::Return(v) => {
                for x in &self.exit_asserts {
                    self.out.push_str(&format!("{}assert({});\n", i, x));
                }
                if !self.inherit {
                    self.out.push_str(&format!("{}ev_frame_exit(f, fr);\n", i));
                }
                if self.returns_bool {
                    self.out.push_str(&format!("{}return {};\n", i, v.text()));
                } else {
                    self.out.push_str(&format!("{}return;\n", i));
                }
            }
            Sk::Loop { body, id, line } => {
                let lf = format!("l{}f", id);
                let lkk = format!("l{}k", id);
                self.out.push_str(&format!("{}let ghost {} = f.v(); // loop at line {}\n", i, lf, line));
                let mut inv: Vec<String> = vec![];
                let mut inv_xb: Vec<String> = vec![];
                let mut ens: Vec<String> = vec![];
                if self.m {
                    self.out.push_str(&format!("{}let ghost {} = lk.v();\n", i, lkk));
                    if !self.body_has(body, "lk") {
                        inv.push(format!("lk.v() == {}", lkk));
                    } else {
                        inv.push(format!("lk.v().held == {}.held", lkk));
                        if !self.body_has(body, "pend") {
                            inv.push(format!("lk.v().pend == {}.pend", lkk));
                        } else {
                            // a half-removed node is dealt with inside the iteration that produced it
                            inv.push("!lk.v().pend".to_string());
                        }
                        if !self.body_has(body, "validate") {
                            inv.push(format!("lk.v().validated == {}.validated", lkk));
                        } else {
                            let nocb = |_: &str, _: &str| false;
                            let isv = |n: &str| n == "ev_lock" || n == "ev_unlock" || n == "ev_validate";
                            let never = |_: &str| false;
                            let calls_lock = {
                                let mut r = false;
                                walk_all(body, &mut |x| if let Sk::Call { callee, .. } = x { if let Some(&j) = self.pos.get(callee) { r |= self.sums[j].may_lock; } });
                                r
                            };
                            if !calls_lock && !dirty_backedge_ev(body, "validated", *id, &nocb, &isv, &never) {
                                inv_xb.push(format!("lk.v().validated == {}.validated", lkk));
                            }
                        }
                        for (what, field) in [("lock", "locks_taken"), ("wait", "waits")] {
                            if self.body_has(body, what) {
                                inv.push(format!("lk.v().{} >= {}.{}", field, lkk, field));
                            } else {
                                inv.push(format!("lk.v().{} == {}.{}", field, lkk, field));
                            }
                        }
                    }
                }
                if !self.body_has(body, "ctl") {
                    inv.push(format!("f.v().ctl_won == {}.ctl_won", lf));
                }
                if !self.body_has(body, "tbl") {
                    inv.push(format!("f.v().nt_cleared == {}.nt_cleared, f.v().tbl_swapped == {}.tbl_swapped", lf, lf));
                }
                let me = self as *const Printer;
                for c in COUNTERS {
                    // the raw pointer is only used for a read-only callback during this call
                    let cb = |callee: &str, cc: &str| -> bool { unsafe { (*me).callee_bumps(callee, cc) } };
                    let bump = contains_bump(body, c, &cb);
                    let reset = match c {
                        "wsv" => self.body_has(body, "reset_wsv"),
                        "nts" => self.body_has(body, "lock"),
                        _ => false,
                    };
                    if reset {
                        continue;
                    }
                    if !bump {
                        inv.push(format!("f.v().{} == {}.{}", c, lf, c));
                    } else if !dirty_backedge(body, c, *id, &cb) {
                        inv_xb.push(format!("f.v().{} == {}.{}", c, lf, c));
                        ens.push(format!("f.v().{} >= {}.{}", c, lf, c));
                    } else {
                        inv.push(format!("f.v().{} >= {}.{}", c, lf, c));
                    }
                }
                if let Some(x) = self.extra_loops.as_ref().and_then(|e| e.get(&id.to_string())) {
                    for (k, dst) in [("invariant", 0), ("invariant_except_break", 1), ("ensures", 2)] {
                        if let Some(a) = x.get(k).and_then(|v| v.as_array()) {
                            for s in a.iter().filter_map(|s| s.as_str()) {
                                match dst {
                                    0 => inv.push(s.to_string()),
                                    1 => inv_xb.push(s.to_string()),
                                    _ => ens.push(s.to_string()),
                                }
                            }
                        }
                    }
                }
                self.out.push_str(&format!("{}'l{}: loop\n", i, id));
                if !inv_xb.is_empty() {
                    self.out.push_str(&format!("{}    invariant_except_break\n", i));
                    for x in &inv_xb {
                        self.out.push_str(&format!("{}        {},\n", i, x));
                    }
                }
                if !inv.is_empty() {
                    self.out.push_str(&format!("{}    invariant\n", i));
                    for x in &inv {
                        self.out.push_str(&format!("{}        {},\n", i, x));
                    }
                }
                if !ens.is_empty() {
                    self.out.push_str(&format!("{}    ensures\n", i));
                    for x in &ens {
                        self.out.push_str(&format!("{}        {},\n", i, x));
                    }
                }
                self.out.push_str(&format!("{}{{\n", i));
                self.loop_stack.push(*id);
                self.stmts(body, d + 1);
                self.loop_stack.pop();
                self.out.push_str(&format!("{}}}\n", i));
            }
        }
    }
}
