//! EFFECT dialect, part 1: the skeleton IR and its Verus rendering.
//!
//! A skeleton keeps the control structure of the real function exactly and reduces every
//! expression to the effect events it contains, in evaluation order.  All data is dropped, except
//! the tracked booleans (rules T3-T5 of DESIGN.md Appendix A).

#[derive(Clone, Debug)]
pub enum Cond {
    Nondet,
    /// tracked boolean variable (is-true / is-some), possibly negated
    Var(String, bool),
}

#[derive(Clone, Debug)]
pub enum BVal {
    Lit(bool),
    Var(String, bool),
    Nondet,
}

impl BVal {
    pub fn text(&self) -> String {
        match self {
            BVal::Lit(b) => b.to_string(),
            BVal::Var(v, neg) => {
                if *neg {
                    format!("!{}", v)
                } else {
                    v.clone()
                }
            }
            BVal::Nondet => "nondet()".to_string(),
        }
    }
}

#[derive(Clone, Debug)]
pub enum Sk {
    /// primitive event: name, extra argument texts (guards etc.), source line
    Ev { name: String, args: Vec<String>, line: usize, src: String },
    /// call of another skeletonised flurry function
    Call { callee: String, root: usize, guards: Vec<String>, bools: Vec<BVal>, result: Option<String>, line: usize },
    If { cond: Cond, then: Vec<Sk>, els: Vec<Sk>, line: usize },
    Loop { body: Vec<Sk>, id: usize, line: usize },
    Break(usize),
    Continue(usize),
    Return(BVal),
    Decl { name: String, init: BVal },
    Set { name: String, val: BVal },
    /// `let r = ev_cas(..)`: a compare-exchange whose outcome guards a branch
    Cas { name: String, kind: String, result: String, line: usize, src: String },
    /// local guard creation
    MkGuard { name: String, how: String, root: usize, line: usize },
    Comment(String),
}

/// counters whose loop invariants come in a strong (unchanged at the back edge) or weak (monotone) form
pub const COUNTERS: [&str; 6] = ["wsv", "nts", "allocs", "callbacks", "vret", "nret"];

#[derive(Default, Clone, Debug)]
pub struct Summary {
    pub may_lock: bool,
    pub may_wait: bool,
    pub may_callback: bool,
    pub may_write: bool,
    pub may_alloc: bool,
}

pub fn ev_counter(name: &str) -> Option<&'static str> {
    match name {
        n if n.starts_with("ev_write_lk") => Some("wsv"),
        "ev_cas_bin_locked" | "ev_write_table" | "ev_write_next_table" | "ev_swap_waiter" | "ev_store_bin" => Some("wsv"),
        "ev_store_nt_bin" => Some("nts"),
        "ev_alloc" => Some("allocs"),
        "ev_callback_locked" | "ev_callback" => Some("callbacks"),
        "ev_retire_value" => Some("vret"),
        "ev_retire_node" => Some("nret"),
        _ => None,
    }
}

/// Does some path through the body of loop `id` bump counter `c` and then reach that loop's back edge
/// (end of body or `continue`)?  If not, the strong invariant "c unchanged at the loop head" is valid.
pub fn dirty_backedge(stmts: &[Sk], c: &str, id: usize, callee_bumps: &dyn Fn(&str, &str) -> bool) -> bool {
    dirty_backedge_ev(stmts, c, id, callee_bumps, &|name: &str| ev_counter(name) == Some(c), &|name: &str| name == "ev_lock" && (c == "wsv" || c == "nts"))
}

/// generalisation: `bump` marks the events that dirty the tracked fact, `reset` those that restore it
pub fn dirty_backedge_ev(stmts: &[Sk], c: &str, id: usize, callee_bumps: &dyn Fn(&str, &str) -> bool, bump: &dyn Fn(&str) -> bool, reset: &dyn Fn(&str) -> bool) -> bool {
    // state = (clean reachable, dirty reachable)
    fn go(stmts: &[Sk], c: &str, id: usize, inp: (bool, bool), cb: &dyn Fn(&str, &str) -> bool, hit: &mut bool, bump: &dyn Fn(&str) -> bool, reset: &dyn Fn(&str) -> bool) -> (bool, bool) {
        let mut cur = inp;
        for s in stmts {
            if !cur.0 && !cur.1 {
                break;
            }
            match s {
                Sk::Ev { name, .. } => {
                    if bump(name) {
                        cur = (false, true);
                    } else if reset(name) {
                        cur = (true, false); // e.g. lock resets the frame-local write counters
                    } else if name == "ev_panic" {
                        cur = (false, false);
                    }
                }
                Sk::Call { callee, .. } => {
                    if cb(callee, c) {
                        cur = (cur.0, true);
                    }
                }
                Sk::If { then, els, .. } => {
                    let a = go(then, c, id, cur, cb, hit, bump, reset);
                    let b = go(els, c, id, cur, cb, hit, bump, reset);
                    cur = (a.0 || b.0, a.1 || b.1);
                }
                Sk::Loop { body, .. } => {
                    let mut st = cur;
                    for _ in 0..3 {
                        let o = go(body, c, id, st, cb, hit, bump, reset);
                        st = (st.0 || o.0, st.1 || o.1);
                    }
                    cur = (st.0, st.1 || contains_bump(body, c, cb) || contains_ev(body, &|x| matches!(x, Sk::Ev { name, .. } if bump(name))));
                }
                Sk::Break(_) | Sk::Return(_) => {
                    cur = (false, false);
                }
                Sk::Continue(t) => {
                    if *t == id && cur.1 {
                        *hit = true;
                    }
                    cur = (false, false);
                }
                _ => {}
            }
        }
        cur
    }
    let mut hit = false;
    let out = go(stmts, c, id, (true, false), callee_bumps, &mut hit, bump, reset);
    hit || out.1
}

pub fn contains_bump(stmts: &[Sk], c: &str, cb: &dyn Fn(&str, &str) -> bool) -> bool {
    stmts.iter().any(|s| match s {
        Sk::Ev { name, .. } => ev_counter(name) == Some(c),
        Sk::Call { callee, .. } => cb(callee, c),
        Sk::If { then, els, .. } => contains_bump(then, c, cb) || contains_bump(els, c, cb),
        Sk::Loop { body, .. } => contains_bump(body, c, cb),
        _ => false,
    })
}

pub fn contains_ev(stmts: &[Sk], pred: &dyn Fn(&Sk) -> bool) -> bool {
    stmts.iter().any(|s| {
        pred(s)
            || match s {
                Sk::If { then, els, .. } => contains_ev(then, pred) || contains_ev(els, pred),
                Sk::Loop { body, .. } => contains_ev(body, pred),
                _ => false,
            }
    })
}

pub fn assigned_vars(stmts: &[Sk], out: &mut Vec<String>) {
    for s in stmts {
        match s {
            Sk::Set { name, .. } => out.push(name.clone()),
            Sk::Call { result: Some(r), .. } => out.push(r.clone()),
            Sk::Cas { result, .. } => out.push(result.clone()),
            Sk::If { then, els, .. } => {
                assigned_vars(then, out);
                assigned_vars(els, out);
            }
            Sk::Loop { body, .. } => assigned_vars(body, out),
            _ => {}
        }
    }
}
