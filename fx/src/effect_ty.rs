//! EFFECT dialect, part 2: lightweight type heads for receiver resolution.
//!
//! Types are reduced to strings such as `HashMap`, `Table`, `Shared<Table>`, `Atomic<BinEntry>`,
//! `Option<Node>`.  Unknown = None.  This is only used to pick the flurry function a method call
//! refers to; an unresolved call is reported, never guessed.
use quote::ToTokens;

pub fn norm_ty(ty: &syn::Type, owner: &str) -> Option<String> {
    match ty {
        syn::Type::Reference(r) => norm_ty(&r.elem, owner),
        syn::Type::Paren(p) => norm_ty(&p.elem, owner),
        syn::Type::Path(p) => {
            let seg = p.path.segments.last()?;
            let name = seg.ident.to_string();
            let inner = |i: usize| -> Option<String> {
                if let syn::PathArguments::AngleBracketed(a) = &seg.arguments {
                    let tys: Vec<&syn::Type> = a
                        .args
                        .iter()
                        .filter_map(|g| if let syn::GenericArgument::Type(t) = g { Some(t) } else { None })
                        .collect();
                    tys.get(i).and_then(|t| norm_ty(t, owner))
                } else {
                    None
                }
            };
            match name.as_str() {
                "Self" => Some(owner.to_string()),
                "Shared" | "Atomic" | "Option" => Some(format!("{}<{}>", name, inner(0).unwrap_or_else(|| "?".into()))),
                "Linked" | "Box" => inner(0),
                _ => Some(name),
            }
        }
        _ => None,
    }
}

pub fn wrap_inner(t: &str, wrapper: &str) -> Option<String> {
    let pre = format!("{}<", wrapper);
    if t.starts_with(&pre) && t.ends_with('>') {
        let i = &t[pre.len()..t.len() - 1];
        if i == "?" {
            None
        } else {
            Some(i.to_string())
        }
    } else {
        None
    }
}

pub fn is_guard_type(ty: &syn::Type) -> bool {
    let s = ty.to_token_stream().to_string().replace(' ', "");
    s.contains("Guard<") && !s.contains("MutexGuard")
}

pub fn is_callback_bound(sig: &syn::Signature, ty_name: &str) -> bool {
    // generic parameter bounded by Fn/FnMut/FnOnce, either inline or in the where clause
    let check = |bounds: &syn::punctuated::Punctuated<syn::TypeParamBound, syn::token::Plus>| {
        bounds.iter().any(|b| {
            let s = b.to_token_stream().to_string();
            s.starts_with("Fn") || s.starts_with("FnMut") || s.starts_with("FnOnce")
        })
    };
    for g in &sig.generics.params {
        if let syn::GenericParam::Type(t) = g {
            if t.ident == ty_name && check(&t.bounds) {
                return true;
            }
        }
    }
    if let Some(w) = &sig.generics.where_clause {
        for p in &w.predicates {
            if let syn::WherePredicate::Type(pt) = p {
                if pt.bounded_ty.to_token_stream().to_string() == ty_name && check(&pt.bounds) {
                    return true;
                }
            }
        }
    }
    false
}

/// variant name -> payload type of `BinEntry`
pub fn binentry_variant(v: &str) -> Option<&'static str> {
    match v {
        "Node" => Some("Node"),
        "Tree" => Some("TreeBin"),
        "TreeNode" => Some("TreeNode"),
        _ => None,
    }
}

pub const MAP_TYPES: [&str; 4] = ["HashMap", "HashSet", "HashMapRef", "HashSetRef"];
