//! EFFECT dialect, part 3: walk a real function body and emit its skeleton.
use crate::effect_ir::*;
use crate::effect_ty::*;
use crate::emit::toks;
use crate::index::{FnInfo, SrcIndex};
use std::collections::{BTreeMap, BTreeSet};
use syn::spanned::Spanned;

#[derive(Clone, Debug, PartialEq)]
pub enum VK {
    Plain,
    Guard(String),
    Lock,
    Tracked,
    Reread,
    OtherMap(usize),
    Callback,
}

#[derive(Clone, Debug)]
pub struct Var {
    pub ty: Option<String>,
    pub kind: VK,
    /// for values of iterator / ref-wrapper types: the guard stored in their field
    pub fg: Option<String>,
}

pub struct Cfg {
    pub primitive_fns: BTreeSet<String>,
    pub owned_fns: BTreeSet<String>,
    pub store_bin_roles: BTreeMap<String, BTreeMap<String, String>>,
    pub forbid_panic: BTreeSet<String>,
    pub skip_files: BTreeSet<String>,
    /// functions in whose `BinEntry::Tree` arm the old bin must be either passed on or retired, exactly once (C04)
    pub old_bin_ledger: BTreeSet<String>,
}

pub struct FnSk {
    pub key: String,
    pub ident: String,
    pub owner: String,
    pub name: String,
    pub file: String,
    pub line: usize,
    pub is_pub: bool,
    pub trait_name: Option<String>,
    pub guards: Vec<String>,
    pub bools: Vec<String>,
    pub has_self_guard: bool,
    pub extra_guards: Vec<String>,
    pub fn_index: usize,
    pub ret_ty: Option<String>,
    pub returns_bool: bool,
    pub mut_self: bool,
    pub body: Vec<Sk>,
    pub errors: Vec<String>,
    pub unresolved: Vec<String>,
    pub ambiguous: Vec<String>,
}

pub fn sk_ident(key: &str) -> String {
    format!("sk_{}", key.replace("::", "_").replace('#', "_"))
}

struct LoopCtx {
    id: usize,
    label: Option<String>,
    depth: usize,
    break_var: Option<String>,
}

pub struct Walker<'a> {
    pub idx: &'a SrcIndex,
    pub cfg: &'a Cfg,
    pub f: &'a FnInfo,
    pub by_name: &'a BTreeMap<String, Vec<usize>>,
    scopes: Vec<BTreeMap<String, Var>>,
    locks: Vec<(String, usize)>,
    loops: Vec<LoopCtx>,
    next_loop: usize,
    next_tmp: usize,
    next_root: usize,
    tracked: BTreeSet<String>,
    null_known: Vec<String>,
    owned: bool,
    pub errors: Vec<String>,
    pub unresolved: Vec<String>,
    pub ambiguous: Vec<String>,
    pub extra_guards: Vec<String>,
    pub fn_index: usize,
    /// inside a Tree arm of a ledger function: the variable holding the old bin pointer
    old_bin_var: Option<String>,
    /// inside a `BinEntry::Moved` arm of a retry loop: a retry must go on with what help_transfer returned (C11)
    in_moved_arm: bool,
    /// locals that only ever hold objects allocated in this function (or null): stores through them do not touch published state
    fresh: BTreeSet<String>,
}

fn struct_guard_field(idx: &SrcIndex, owner: &str) -> bool {
    idx.structs
        .get(owner)
        .map(|s| s.fields.iter().any(|(n, _)| n == "guard" || n == "node_iter"))
        .unwrap_or(false)
}

pub fn fn_guard_params(f: &FnInfo) -> Vec<String> {
    let mut v = vec![];
    for a in &f.sig.inputs {
        if let syn::FnArg::Typed(t) = a {
            if is_guard_type(&t.ty) {
                if let syn::Pat::Ident(i) = &*t.pat {
                    v.push(i.ident.to_string());
                }
            }
        }
    }
    v
}

fn is_bool_or_option(ty: &syn::Type) -> bool {
    match ty {
        syn::Type::Path(p) => {
            let s = p.path.segments.last().map(|s| s.ident.to_string()).unwrap_or_default();
            s == "bool" || s == "Option"
        }
        _ => false,
    }
}

pub fn fn_bool_params(f: &FnInfo) -> Vec<String> {
    let mut v = vec![];
    for a in &f.sig.inputs {
        if let syn::FnArg::Typed(t) = a {
            if is_bool_or_option(&t.ty) {
                if let syn::Pat::Ident(i) = &*t.pat {
                    v.push(i.ident.to_string());
                }
            }
        }
    }
    v
}

pub fn fn_has_self(f: &FnInfo) -> (bool, bool) {
    for a in &f.sig.inputs {
        if let syn::FnArg::Receiver(r) = a {
            return (true, r.mutability.is_some() && r.reference.is_some());
        }
    }
    (false, false)
}

fn path_segs(p: &syn::Path) -> Vec<String> {
    p.segments.iter().map(|s| s.ident.to_string()).collect()
}

fn leftmost_ident(e: &syn::Expr) -> Option<String> {
    match e {
        syn::Expr::Path(p) => p.path.segments.first().map(|s| s.ident.to_string()),
        syn::Expr::Field(f) => leftmost_ident(&f.base),
        syn::Expr::MethodCall(m) => leftmost_ident(&m.receiver),
        syn::Expr::Paren(p) => leftmost_ident(&p.expr),
        syn::Expr::Reference(r) => leftmost_ident(&r.expr),
        syn::Expr::Unary(u) => leftmost_ident(&u.expr),
        syn::Expr::Try(t) => leftmost_ident(&t.expr),
        syn::Expr::Unsafe(u) => match u.block.stmts.last() {
            Some(syn::Stmt::Expr(e, None)) => leftmost_ident(e),
            _ => None,
        },
        syn::Expr::Index(i) => leftmost_ident(&i.expr),
        _ => None,
    }
}

fn strip(e: &syn::Expr) -> &syn::Expr {
    match e {
        syn::Expr::Paren(p) => strip(&p.expr),
        syn::Expr::Reference(r) => strip(&r.expr),
        syn::Expr::Unary(u) if matches!(u.op, syn::UnOp::Deref(_)) => strip(&u.expr),
        syn::Expr::Group(g) => strip(&g.expr),
        _ => e,
    }
}

/// names that are only ever bound to / assigned from an allocation made here (`Shared::boxed(..)`, `TreeNode::new(..)`,
/// `Node::new(..)`, `Node::with_next(..)`), `Shared::null()`, or another such name
fn fresh_names(b: &syn::Block) -> BTreeSet<String> {
    #[derive(Default)]
    struct V { binds: Vec<(String, String)> }
    impl<'ast> syn::visit::Visit<'ast> for V {
        fn visit_local(&mut self, l: &'ast syn::Local) {
            if let (Some(n), Some(init)) = (match &l.pat { syn::Pat::Ident(i) => Some(i.ident.to_string()), syn::Pat::Type(t) => match &*t.pat { syn::Pat::Ident(i) => Some(i.ident.to_string()), _ => None }, _ => None }, &l.init) {
                self.binds.push((n, toks(&*init.expr).replace(' ', "")));
            }
            syn::visit::visit_local(self, l);
        }
        fn visit_expr_assign(&mut self, a: &'ast syn::ExprAssign) {
            if let syn::Expr::Path(p) = &*a.left {
                if let Some(i) = p.path.get_ident() {
                    self.binds.push((i.to_string(), toks(&*a.right).replace(' ', "")));
                }
            }
            syn::visit::visit_expr_assign(self, a);
        }
    }
    let mut v = V::default();
    syn::visit::Visit::visit_block(&mut v, b);
    let is_alloc = |t: &str| t.starts_with("Shared::boxed(") || t.starts_with("TreeNode::new(") || t.starts_with("Node::new(") || t.starts_with("Node::with_next(");
    let mut cand: BTreeSet<String> = v.binds.iter().filter(|(_, t)| is_alloc(t)).map(|(n, _)| n.clone()).collect();
    // names that are only assigned from candidates join; names with any other source leave
    loop {
        let before = cand.clone();
        for (n, t) in &v.binds {
            if cand.contains(t.as_str()) && v.binds.iter().filter(|(n2, _)| n2 == n).all(|(_, t2)| is_alloc(t2) || t2 == "Shared::null()" || cand.contains(t2.as_str()) || t2 == n) {
                cand.insert(n.clone());
            }
        }
        let bad: Vec<String> = cand.iter().filter(|n| v.binds.iter().filter(|(n2, _)| &n2 == n).any(|(_, t)| !(is_alloc(t) || t == "Shared::null()" || cand.contains(t.as_str())))).cloned().collect();
        for n in bad { cand.remove(&n); }
        if cand == before { break; }
    }
    cand
}

fn field_name(e: &syn::Expr) -> Option<String> {
    if let syn::Expr::Field(f) = strip(e) {
        if let syn::Member::Named(i) = &f.member {
            return Some(i.to_string());
        }
    }
    None
}

impl<'a> Walker<'a> {
    pub fn new(idx: &'a SrcIndex, cfg: &'a Cfg, f: &'a FnInfo, by_name: &'a BTreeMap<String, Vec<usize>>, fn_index: usize) -> Self {
        let (_, mut_self) = fn_has_self(f);
        Walker {
            idx,
            cfg,
            f,
            by_name,
            scopes: vec![BTreeMap::new()],
            locks: vec![],
            loops: vec![],
            next_loop: 0,
            next_tmp: 0,
            next_root: 2,
            tracked: BTreeSet::new(),
            null_known: vec![],
            owned: mut_self || cfg.owned_fns.contains(&f.key),
            errors: vec![],
            unresolved: vec![],
            ambiguous: vec![],
            extra_guards: vec![],
            fn_index,
            old_bin_var: None,
            in_moved_arm: false,
            fresh: fresh_names(&f.block),
        }
    }

    fn err(&mut self, what: &str, sp: proc_macro2::Span) {
        self.errors.push(format!("unsupported construct in {} ({}:{}): {}", self.f.key, self.f.file, sp.start().line, what));
    }
    fn tmp(&mut self, pre: &str) -> String {
        self.next_tmp += 1;
        format!("{}_{}", pre, self.next_tmp)
    }
    fn lookup(&self, n: &str) -> Option<&Var> {
        self.scopes.iter().rev().find_map(|s| s.get(n))
    }
    fn bind(&mut self, n: &str, v: Var) {
        self.scopes.last_mut().unwrap().insert(n.to_string(), v);
    }
    fn plain(ty: Option<String>) -> Var {
        Var { ty, kind: VK::Plain, fg: None }
    }

    // ------------------------------------------------------------------ entry
    pub fn walk_fn(mut self) -> FnSk {
        let f = self.f;
        let (has_self, mut_self) = fn_has_self(f);
        let guards = fn_guard_params(f);
        let bools = fn_bool_params(f);
        let has_self_guard = has_self && struct_guard_field(self.idx, &f.owner);
        for a in &f.sig.inputs {
            if let syn::FnArg::Typed(t) = a {
                if let syn::Pat::Ident(i) = &*t.pat {
                    let n = i.ident.to_string();
                    if is_guard_type(&t.ty) {
                        self.bind(&n, Var { ty: Some("Guard".into()), kind: VK::Guard(format!("g_{}", n)), fg: None });
                    } else if is_bool_or_option(&t.ty) {
                        self.bind(&n, Var { ty: norm_ty(&t.ty, &f.owner), kind: VK::Tracked, fg: None });
                    } else {
                        let ty = norm_ty(&t.ty, &f.owner);
                        let tyname = crate::emit::toks(&t.ty);
                        let tn = tyname.trim_start_matches('&').trim().to_string();
                        let gen_name = tn.split('<').next().unwrap_or("").trim().to_string();
                        if is_callback_bound(&f.sig, &gen_name) {
                            self.bind(&n, Var { ty: None, kind: VK::Callback, fg: None });
                        } else if ty.as_deref().map(|t| MAP_TYPES.contains(&t)).unwrap_or(false) {
                            let r = self.next_root;
                            self.next_root += 1;
                            let fg = if ty.as_deref() == Some("HashMapRef") || ty.as_deref() == Some("HashSetRef") {
                                self.extra_guards.push(format!("g_{}_field", n));
                                Some(format!("g_{}_field", n))
                            } else {
                                None
                            };
                            self.bind(&n, Var { ty, kind: VK::OtherMap(r), fg });
                        } else {
                            self.bind(&n, Self::plain(ty));
                        }
                    }
                }
            }
        }
        if has_self {
            let fg = if has_self_guard { Some("g_self".to_string()) } else { None };
            self.bind("self", Var { ty: Some(f.owner.clone()), kind: VK::Plain, fg });
        }
        self.prescan_tracked();
        let mut body = vec![];
        for b in &bools {
            body.push(Sk::Decl { name: b.clone(), init: BVal::Var(format!("p_{}", b), false) });
        }
        let mut blk = f.block.clone();
        if fn_returns_bool(f) {
            // the tail expression of a bool function is its return value (rule T5)
            if let Some(syn::Stmt::Expr(e, None)) = blk.stmts.last().cloned() {
                let n = blk.stmts.len();
                blk.stmts[n - 1] = syn::parse_quote!(return #e;);
            }
        }
        self.block(&blk, &mut body);
        FnSk {
            key: f.key.clone(),
            ident: sk_ident(&f.key),
            owner: f.owner.clone(),
            name: f.name.clone(),
            file: f.file.clone(),
            line: f.line_start,
            is_pub: f.is_pub,
            trait_name: f.trait_name.clone(),
            guards,
            bools,
            has_self_guard,
            extra_guards: self.extra_guards.clone(),
            fn_index: self.fn_index,
            ret_ty: callee_ret_ty(f),
            returns_bool: fn_returns_bool(f),
            mut_self,
            body,
            errors: self.errors,
            unresolved: self.unresolved,
            ambiguous: self.ambiguous,
        }
    }

    // ------------------------------------------------------------------ tracked variables (rule T3)
    fn is_cas_call(&self, e: &syn::Expr) -> bool {
        if let syn::Expr::MethodCall(m) = strip(e) {
            let n = m.method.to_string();
            return n == "compare_exchange" || n == "cas_bin";
        }
        false
    }
    /// call of a flurry function whose Rust return type is `bool` (rule T5: its result can be tracked)
    fn is_bool_flurry_call(&self, m: &syn::ExprMethodCall) -> bool {
        let cands = self.candidates(&m.method.to_string(), m.args.len(), Some(true));
        !cands.is_empty() && cands.iter().all(|f| fn_returns_bool(f)) && !cands.iter().any(|f| self.cfg.primitive_fns.contains(&f.key))
    }
    fn literalish(&self, e: &syn::Expr, names: &BTreeSet<String>, loop_depth: usize) -> bool {
        match e {
            syn::Expr::Lit(l) => matches!(l.lit, syn::Lit::Bool(_)),
            syn::Expr::Path(p) => p.path.is_ident("None"),
            syn::Expr::Call(c) => {
                if let syn::Expr::Path(p) = &*c.func {
                    p.path.is_ident("Some")
                } else {
                    false
                }
            }
            syn::Expr::MethodCall(m) => {
                let n = m.method.to_string();
                if (n == "is_some" || n == "is_none") && m.args.is_empty() {
                    if let syn::Expr::Path(p) = strip(&m.receiver) {
                        if let Some(id) = p.path.get_ident() {
                            return names.contains(&id.to_string());
                        }
                    }
                    false
                } else if (n == "is_ok" || n == "is_err") && m.args.is_empty() {
                    self.is_cas_call(&m.receiver)
                } else {
                    self.is_bool_flurry_call(m)
                }
            }
            syn::Expr::Block(b) => self.block_tail_literalish(&b.block, names, loop_depth),
            syn::Expr::Unsafe(b) => self.block_tail_literalish(&b.block, names, loop_depth),
            syn::Expr::If(i) => {
                self.block_tail_literalish(&i.then_branch, names, loop_depth)
                    && i.else_branch.as_ref().map(|(_, e)| self.literalish(e, names, loop_depth)).unwrap_or(false)
            }
            syn::Expr::Loop(l) => {
                // every `break` of this loop must carry a literalish value
                struct B<'x, 'y> {
                    ok: bool,
                    depth: usize,
                    w: &'x Walker<'y>,
                    names: &'x BTreeSet<String>,
                }
                impl<'x, 'y, 'ast> syn::visit::Visit<'ast> for B<'x, 'y> {
                    fn visit_expr_loop(&mut self, l: &'ast syn::ExprLoop) {
                        self.depth += 1;
                        syn::visit::visit_expr_loop(self, l);
                        self.depth -= 1;
                    }
                    fn visit_expr_while(&mut self, l: &'ast syn::ExprWhile) {
                        self.depth += 1;
                        syn::visit::visit_expr_while(self, l);
                        self.depth -= 1;
                    }
                    fn visit_expr_for_loop(&mut self, l: &'ast syn::ExprForLoop) {
                        self.depth += 1;
                        syn::visit::visit_expr_for_loop(self, l);
                        self.depth -= 1;
                    }
                    fn visit_expr_closure(&mut self, _: &'ast syn::ExprClosure) {}
                    fn visit_expr_break(&mut self, b: &'ast syn::ExprBreak) {
                        if self.depth == 0 && b.label.is_none() {
                            match &b.expr {
                                Some(e) => {
                                    if !self.w.literalish(e, self.names, 0) {
                                        self.ok = false;
                                    }
                                }
                                None => self.ok = false,
                            }
                        }
                    }
                }
                let mut b = B { ok: true, depth: 0, w: self, names };
                for s in &l.body.stmts {
                    syn::visit::Visit::visit_stmt(&mut b, s);
                }
                b.ok
            }
            syn::Expr::Paren(p) => self.literalish(&p.expr, names, loop_depth),
            _ => false,
        }
    }
    fn block_tail_literalish(&self, b: &syn::Block, names: &BTreeSet<String>, d: usize) -> bool {
        match b.stmts.last() {
            Some(syn::Stmt::Expr(e, None)) => self.literalish(e, names, d),
            _ => false,
        }
    }
    fn prescan_tracked(&mut self) {
        // candidates: every local; iterate to a fixpoint removing those with a non-literal assignment
        struct Coll {
            assigns: Vec<(String, Option<syn::Expr>)>,
        }
        impl<'ast> syn::visit::Visit<'ast> for Coll {
            fn visit_local(&mut self, l: &'ast syn::Local) {
                let mut p = &l.pat;
                if let syn::Pat::Type(t) = p {
                    p = &t.pat;
                }
                if let syn::Pat::Ident(i) = p {
                    self.assigns.push((i.ident.to_string(), l.init.as_ref().map(|x| (*x.expr).clone())));
                    if let Some(init) = &l.init {
                        syn::visit::Visit::visit_expr(self, &init.expr);
                        if let Some((_, d)) = &init.diverge {
                            syn::visit::Visit::visit_expr(self, d);
                        }
                    }
                    return;
                } else {
                    // names bound by destructuring patterns are never tracked
                    struct P<'z>(&'z mut Vec<(String, Option<syn::Expr>)>);
                    impl<'z, 'a2> syn::visit::Visit<'a2> for P<'z> {
                        fn visit_pat_ident(&mut self, i: &'a2 syn::PatIdent) {
                            let bad: syn::Expr = syn::parse_quote!(__untracked());
                            self.0.push((i.ident.to_string(), Some(bad)));
                        }
                    }
                    syn::visit::Visit::visit_pat(&mut P(&mut self.assigns), p);
                }
                syn::visit::visit_local(self, l);
            }
            fn visit_expr_assign(&mut self, a: &'ast syn::ExprAssign) {
                if let syn::Expr::Path(p) = &*a.left {
                    if let Some(i) = p.path.get_ident() {
                        self.assigns.push((i.to_string(), Some((*a.right).clone())));
                    }
                }
                syn::visit::visit_expr_assign(self, a);
            }
            fn visit_pat_ident(&mut self, i: &'ast syn::PatIdent) {
                // match-arm / closure / for patterns
                let bad: syn::Expr = syn::parse_quote!(__untracked());
                self.assigns.push((i.ident.to_string(), Some(bad)));
            }
        }
        let mut c = Coll { assigns: vec![] };
        syn::visit::Visit::visit_block(&mut c, &self.f.block);
        let mut names: BTreeSet<String> = c.assigns.iter().map(|(n, _)| n.clone()).collect();
        for b in fn_bool_params(self.f) {
            names.insert(b);
        }
        loop {
            let mut bad = BTreeSet::new();
            for (n, e) in &c.assigns {
                if let Some(e) = e {
                    if !self.literalish(e, &names, 0) {
                        bad.insert(n.clone());
                    }
                }
            }
            let before = names.len();
            for b in &bad {
                if !fn_bool_params(self.f).contains(b) {
                    names.remove(b);
                }
            }
            // a name must have at least one literal assignment to be worth tracking
            if names.len() == before {
                break;
            }
        }
        let with_value: BTreeSet<String> = c.assigns.iter().filter(|(_, e)| e.is_some()).map(|(n, _)| n.clone()).collect();
        self.tracked = names.into_iter().filter(|n| with_value.contains(n) || fn_bool_params(self.f).contains(n)).collect();
    }
}

// ====================================================================== statements and expressions
impl<'a> Walker<'a> {
    fn exit_scopes(&mut self, to_depth: usize, out: &mut Vec<Sk>) {
        // RAII drop elaboration: lock tokens declared in the scopes being left are released
        let ls: Vec<(String, usize)> = self.locks.iter().filter(|(_, d)| *d > to_depth).cloned().collect();
        for (n, _) in ls.iter().rev() {
            out.push(Sk::Ev { name: "ev_unlock".into(), args: vec![], line: 0, src: format!("scope exit of `{}`", n) });
        }
    }

    pub fn block(&mut self, b: &syn::Block, out: &mut Vec<Sk>) -> Option<String> {
        self.scopes.push(BTreeMap::new());
        let depth = self.scopes.len();
        let mut last_ty = None;
        let n = b.stmts.len();
        for (i, s) in b.stmts.iter().enumerate() {
            if i + 1 == n {
                if let (Some(v), syn::Stmt::Expr(syn::Expr::Path(p), None)) = (&self.old_bin_var, s) {
                    if p.path.is_ident(v.as_str()) {
                        out.push(Sk::Set { name: "g_reuse".into(), val: BVal::Lit(true) });
                    }
                }
            }
            let t = self.stmt(s, out);
            if i + 1 == n {
                last_ty = t;
            }
        }
        // normal end of scope
        let ls: Vec<(String, usize)> = self.locks.iter().filter(|(_, d)| *d >= depth).cloned().collect();
        for (nm, _) in ls.iter().rev() {
            out.push(Sk::Ev { name: "ev_unlock".into(), args: vec![], line: 0, src: format!("end of scope of `{}`", nm) });
        }
        self.locks.retain(|(_, d)| *d < depth);
        self.scopes.pop();
        last_ty
    }

    fn stmt(&mut self, s: &syn::Stmt, out: &mut Vec<Sk>) -> Option<String> {
        match s {
            syn::Stmt::Local(l) => {
                self.local(l, out);
                None
            }
            syn::Stmt::Expr(e, semi) => {
                // help_transfer returns the table a retry has to continue on: a call whose result is discarded (statement
                // position) inside a loop makes the retry re-read the forwarded bin of the old table for ever
                if semi.is_some() && !self.loops.is_empty() {
                    if let syn::Expr::MethodCall(m) = e {
                        if m.method == "help_transfer" {
                            out.push(Sk::Raw("assert(false);   // OBL:C11:the_table_returned_by_help_transfer_is_the_one_the_retry_continues_on".into()));
                        }
                    }
                }
                self.expr(e, out).and_then(|v| v.ty)
            }
            syn::Stmt::Macro(m) => {
                self.mac(&m.mac, out);
                None
            }
            syn::Stmt::Item(_) => None,
        }
    }

    fn pat_name(p: &syn::Pat) -> Option<String> {
        match p {
            syn::Pat::Ident(i) => Some(i.ident.to_string()),
            syn::Pat::Type(t) => Self::pat_name(&t.pat),
            _ => None,
        }
    }

    /// bind the names of a destructuring pattern, giving payload types where they are known
    fn bind_pat(&mut self, p: &syn::Pat, scrut_ty: Option<&str>, fg: Option<String>) {
        match p {
            syn::Pat::Ident(i) => {
                let n = i.ident.to_string();
                self.bind(&n, Var { ty: scrut_ty.map(|s| s.to_string()), kind: VK::Plain, fg });
            }
            syn::Pat::Type(t) => self.bind_pat(&t.pat, scrut_ty, fg),
            syn::Pat::Reference(r) => self.bind_pat(&r.pat, scrut_ty, fg),
            syn::Pat::Paren(r) => self.bind_pat(&r.pat, scrut_ty, fg),
            syn::Pat::TupleStruct(ts) => {
                let segs = path_segs(&ts.path);
                let last = segs.last().cloned().unwrap_or_default();
                let inner: Option<String> = if segs.len() >= 2 && segs[segs.len() - 2] == "BinEntry" {
                    binentry_variant(&last).map(|s| s.to_string())
                } else if last == "Some" {
                    scrut_ty.and_then(|t| wrap_inner(t, "Option"))
                } else {
                    None
                };
                for e in &ts.elems {
                    self.bind_pat(e, inner.as_deref(), fg.clone());
                }
            }
            syn::Pat::Tuple(t) => {
                for e in &t.elems {
                    self.bind_pat(e, None, None);
                }
            }
            syn::Pat::Struct(st) => {
                for f in &st.fields {
                    self.bind_pat(&f.pat, None, None);
                }
            }
            syn::Pat::Or(o) => {
                for c in &o.cases {
                    self.bind_pat(c, scrut_ty, fg.clone());
                }
            }
            _ => {}
        }
    }

    fn local(&mut self, l: &syn::Local, out: &mut Vec<Sk>) {
        let name = Self::pat_name(&l.pat);
        let init = match &l.init {
            Some(i) => i,
            None => {
                if let Some(n) = &name {
                    if self.tracked.contains(n) {
                        out.push(Sk::Decl { name: n.clone(), init: BVal::Lit(false) });
                        self.bind(n, Var { ty: None, kind: VK::Tracked, fg: None });
                    } else {
                        self.bind(n, Self::plain(None));
                    }
                }
                return;
            }
        };
        // a poisoning mutex: `let b = X.lock.lock().unwrap();` (or .expect(..)) — std::sync::Mutex::lock returns Err for ever once a
        // thread panicked while holding the guard; user callbacks run under bin locks and may panic (C18), so an unwrapped
        // LockResult makes every later operation on that bin panic.  The acquisition itself is walked as a lock acquisition.
        if let syn::Expr::MethodCall(u) = &*init.expr {
            if (u.method == "unwrap" || u.method == "expect") && matches!(&*u.receiver, syn::Expr::MethodCall(m) if m.method == "lock" && m.args.is_empty() && field_name(&m.receiver).as_deref() == Some("lock")) {
                if let (syn::Expr::MethodCall(m), Some(n)) = (&*u.receiver, &name) {
                    self.expr(&m.receiver, out);
                    out.push(Sk::Raw("assert(false);   // OBL:C18:a_bin_lock_must_not_be_poisoned_by_a_panicking_callback".into()));
                    out.push(Sk::Ev { name: "ev_lock".into(), args: vec![], line: l.span().start().line, src: toks(&*init.expr) });
                    let d = self.scopes.len();
                    self.locks.push((n.clone(), d));
                    self.bind(n, Var { ty: None, kind: VK::Lock, fg: None });
                    return;
                }
            }
        }
        // lock acquisition: `let b = X.lock.lock();`
        if let syn::Expr::MethodCall(m) = &*init.expr {
            if m.method == "lock" && m.args.is_empty() && field_name(&m.receiver).as_deref() == Some("lock") {
                if let Some(n) = &name {
                    self.expr(&m.receiver, out);
                    out.push(Sk::Ev { name: "ev_lock".into(), args: vec![], line: l.span().start().line, src: toks(&*init.expr) });
                    let d = self.scopes.len();
                    self.locks.push((n.clone(), d));
                    self.bind(n, Var { ty: None, kind: VK::Lock, fg: None });
                    return;
                }
            }
        }
        if let Some(n) = &name {
            if self.tracked.contains(n) {
                out.push(Sk::Decl { name: n.clone(), init: BVal::Lit(false) });
                self.bind(n, Var { ty: None, kind: VK::Tracked, fg: None });
                self.assign_tracked(n, &init.expr, out);
                return;
            }
        }
        let v = self.expr(&init.expr, out);
        if let Some((_, d)) = &init.diverge {
            // let-else: the else block diverges
            let mut els = vec![];
            self.expr(d, &mut els);
            out.push(Sk::If { cond: Cond::Nondet, then: els, els: vec![], line: l.span().start().line });
        }
        match name {
            Some(n) => {
                let mut var = v.unwrap_or(Self::plain(None));
                if var.ty.is_none() {
                    if let syn::Pat::Type(pt) = &l.pat {
                        var.ty = norm_ty(&pt.ty, &self.f.owner);
                    }
                }
                // `let current_head = t.bin(i, guard)` while a lock is held: the re-read used for validation
                if let syn::Expr::MethodCall(m) = strip(&init.expr) {
                    if m.method == "bin" && !self.locks.is_empty() {
                        var.kind = VK::Reread;
                    }
                }
                if matches!(var.kind, VK::Lock | VK::Tracked | VK::Callback) {
                    var.kind = VK::Plain;
                }
                self.bind(&n, var);
            }
            None => {
                let (ty, fg) = v.map(|v| (v.ty, v.fg)).unwrap_or((None, None));
                self.bind_pat(&l.pat, ty.as_deref(), fg);
            }
        }
    }

    /// assignment of a tracked variable: walk the value positions, emitting events on the way
    fn assign_tracked(&mut self, var: &str, e: &syn::Expr, out: &mut Vec<Sk>) {
        match e {
            syn::Expr::Lit(l) => {
                if let syn::Lit::Bool(b) = &l.lit {
                    out.push(Sk::Set { name: var.into(), val: BVal::Lit(b.value) });
                }
            }
            syn::Expr::Path(p) if p.path.is_ident("None") => out.push(Sk::Set { name: var.into(), val: BVal::Lit(false) }),
            syn::Expr::Call(c) if matches!(&*c.func, syn::Expr::Path(p) if p.path.is_ident("Some")) => {
                for a in &c.args {
                    self.expr(a, out);
                }
                out.push(Sk::Set { name: var.into(), val: BVal::Lit(true) });
            }
            syn::Expr::MethodCall(m) if self.is_bool_flurry_call(m) => {
                self.expr(e, out);
                let r = self.tmp("ret");
                let mut done = false;
                if let Some(Sk::Call { result, .. }) = out.last_mut() {
                    *result = Some(r.clone());
                    done = true;
                }
                if done {
                    out.push(Sk::Set { name: var.into(), val: BVal::Var(r, false) });
                } else {
                    self.err("tracked result of a call that did not resolve", e.span());
                }
            }
            syn::Expr::MethodCall(m) => {
                let n = m.method.to_string();
                if n == "is_ok" || n == "is_err" {
                    if let Some(r) = self.cas(&m.receiver, out) {
                        out.push(Sk::Set { name: var.into(), val: BVal::Var(r, n == "is_err") });
                        return;
                    }
                }
                if let syn::Expr::Path(p) = strip(&m.receiver) {
                    if let Some(id) = p.path.get_ident() {
                        out.push(Sk::Set { name: var.into(), val: BVal::Var(id.to_string(), n == "is_none") });
                        return;
                    }
                }
                self.err("tracked assignment", e.span());
            }
            syn::Expr::Paren(p) => self.assign_tracked(var, &p.expr, out),
            syn::Expr::Block(b) => self.block_tracked(var, &b.block, out),
            syn::Expr::Unsafe(b) => self.block_tracked(var, &b.block, out),
            syn::Expr::If(i) => {
                let c = self.cond(&i.cond, out);
                let mut th = vec![];
                let pushed = self.push_null_known(&i.cond);
                self.block_tracked(var, &i.then_branch, &mut th);
                if pushed {
                    self.null_known.pop();
                }
                let mut el = vec![];
                if let Some((_, e2)) = &i.else_branch {
                    self.assign_tracked(var, e2, &mut el);
                }
                out.push(Sk::If { cond: c, then: th, els: el, line: i.span().start().line });
            }
            syn::Expr::Loop(l) => {
                self.loop_(&l.body, l.label.as_ref().map(|l| l.name.ident.to_string()), None, Some(var.to_string()), l.span().start().line, out);
            }
            _ => self.err("tracked assignment of a non-literal", e.span()),
        }
    }
    fn block_tracked(&mut self, var: &str, b: &syn::Block, out: &mut Vec<Sk>) {
        self.scopes.push(BTreeMap::new());
        let depth = self.scopes.len();
        let n = b.stmts.len();
        for (i, s) in b.stmts.iter().enumerate() {
            if i + 1 == n {
                if let syn::Stmt::Expr(e, None) = s {
                    self.assign_tracked(var, e, out);
                    continue;
                }
            }
            self.stmt(s, out);
        }
        let ls: Vec<(String, usize)> = self.locks.iter().filter(|(_, d)| *d >= depth).cloned().collect();
        for (nm, _) in ls.iter().rev() {
            out.push(Sk::Ev { name: "ev_unlock".into(), args: vec![], line: 0, src: format!("end of scope of `{}`", nm) });
        }
        self.locks.retain(|(_, d)| *d < depth);
        self.scopes.pop();
    }

    fn push_null_known(&mut self, c: &syn::Expr) -> bool {
        if let syn::Expr::MethodCall(m) = strip(c) {
            if m.method == "is_null" {
                if let syn::Expr::Path(p) = strip(&m.receiver) {
                    if let Some(i) = p.path.get_ident() {
                        self.null_known.push(i.to_string());
                        return true;
                    }
                }
            }
        }
        false
    }

    /// evaluate a condition: events first, then the kept condition (tracked variable) or nondet
    fn cond(&mut self, c: &syn::Expr, out: &mut Vec<Sk>) -> Cond {
        let c0 = strip(c);
        match c0 {
            syn::Expr::Path(p) => {
                if let Some(i) = p.path.get_ident() {
                    if self.lookup(&i.to_string()).map(|v| v.kind == VK::Tracked).unwrap_or(false) {
                        return Cond::Var(i.to_string(), false);
                    }
                }
            }
            syn::Expr::Unary(u) if matches!(u.op, syn::UnOp::Not(_)) => {
                let inner = self.cond(&u.expr, out);
                return match inner {
                    Cond::Var(v, n) => Cond::Var(v, !n),
                    Cond::Nondet => Cond::Nondet,
                };
            }
            syn::Expr::MethodCall(m) => {
                let n = m.method.to_string();
                if (n == "is_some" || n == "is_none") && m.args.is_empty() {
                    if let syn::Expr::Path(p) = strip(&m.receiver) {
                        if let Some(i) = p.path.get_ident() {
                            if self.lookup(&i.to_string()).map(|v| v.kind == VK::Tracked).unwrap_or(false) {
                                return Cond::Var(i.to_string(), n == "is_none");
                            }
                        }
                    }
                }
                if (n == "is_ok" || n == "is_err") && m.args.is_empty() {
                    if let Some(r) = self.cas(&m.receiver, out) {
                        return Cond::Var(r, n == "is_err");
                    }
                }
            }
            syn::Expr::Let(l) => {
                // `if let Some(..) = tracked`
                if let syn::Expr::Path(p) = strip(&l.expr) {
                    if let Some(i) = p.path.get_ident() {
                        if self.lookup(&i.to_string()).map(|v| v.kind == VK::Tracked).unwrap_or(false) {
                            self.bind_pat(&l.pat, None, None);
                            let is_some = crate::emit::toks(&*l.pat).starts_with("Some");
                            return Cond::Var(i.to_string(), !is_some);
                        }
                    }
                }
                let v = self.expr(&l.expr, out);
                let (ty, fg) = v.map(|v| (v.ty, v.fg)).unwrap_or((None, None));
                self.bind_pat(&l.pat, ty.as_deref(), fg);
                return Cond::Nondet;
            }
            _ => {}
        }
        self.expr(c0, out);
        Cond::Nondet
    }

    fn loop_(&mut self, body: &syn::Block, label: Option<String>, pre: Option<Vec<Sk>>, break_var: Option<String>, line: usize, out: &mut Vec<Sk>) {
        let id = self.next_loop;
        self.next_loop += 1;
        self.loops.push(LoopCtx { id, label, depth: self.scopes.len(), break_var });
        let mut b = pre.unwrap_or_default();
        self.block(body, &mut b);
        self.loops.pop();
        out.push(Sk::Loop { body: b, id, line });
    }

    fn find_loop(&self, label: &Option<syn::Lifetime>) -> Option<usize> {
        match label {
            Some(l) => {
                let n = l.ident.to_string();
                self.loops.iter().rposition(|c| c.label.as_deref() == Some(n.as_str()))
            }
            None => {
                if self.loops.is_empty() {
                    None
                } else {
                    Some(self.loops.len() - 1)
                }
            }
        }
    }

    fn bval_of(&mut self, e: &syn::Expr) -> BVal {
        match strip(e) {
            syn::Expr::Lit(l) => {
                if let syn::Lit::Bool(b) = &l.lit {
                    return BVal::Lit(b.value);
                }
                BVal::Nondet
            }
            syn::Expr::Path(p) => {
                if p.path.is_ident("None") {
                    return BVal::Lit(false);
                }
                if let Some(i) = p.path.get_ident() {
                    if self.lookup(&i.to_string()).map(|v| v.kind == VK::Tracked).unwrap_or(false) {
                        return BVal::Var(i.to_string(), false);
                    }
                }
                BVal::Nondet
            }
            syn::Expr::Call(c) => {
                if let syn::Expr::Path(p) = &*c.func {
                    if p.path.is_ident("Some") {
                        return BVal::Lit(true);
                    }
                }
                BVal::Nondet
            }
            _ => BVal::Nondet,
        }
    }

    /// guard name denoted by an argument expression, if it is a guard
    fn guard_of(&self, e: &syn::Expr) -> Option<String> {
        match strip(e) {
            syn::Expr::Path(p) => {
                let i = p.path.get_ident()?.to_string();
                match &self.lookup(&i)?.kind {
                    VK::Guard(g) => Some(g.clone()),
                    _ => None,
                }
            }
            syn::Expr::Field(f) => {
                if let syn::Member::Named(m) = &f.member {
                    if m == "guard" {
                        let base = leftmost_ident(&f.base)?;
                        return self.lookup(&base).and_then(|v| v.fg.clone());
                    }
                }
                None
            }
            _ => None,
        }
    }

    fn root_of(&self, e: &syn::Expr) -> usize {
        if let Some(l) = leftmost_ident(e) {
            if let Some(v) = self.lookup(&l) {
                if let VK::OtherMap(r) = v.kind {
                    return r;
                }
            }
        }
        1
    }
}

// ====================================================================== expressions
const ITER_TYPES: [&str; 4] = ["Iter", "Keys", "Values", "NodeIter"];

impl<'a> Walker<'a> {
    fn ev(&self, name: &str, args: Vec<String>, e: &dyn quote::ToTokens, line: usize) -> Sk {
        let mut src = crate::emit::toks(e);
        if src.len() > 110 {
            src.truncate(110);
            src.push_str("...");
        }
        Sk::Ev { name: name.into(), args, line, src }
    }

    fn vty(ty: Option<String>) -> Option<Var> {
        Some(Var { ty, kind: VK::Plain, fg: None })
    }

    /// a compare-exchange whose outcome is inspected: emits the Cas statement, returns the result variable
    fn cas(&mut self, e: &syn::Expr, out: &mut Vec<Sk>) -> Option<String> {
        if let syn::Expr::MethodCall(m) = strip(e) {
            let n = m.method.to_string();
            if n == "compare_exchange" || n == "cas_bin" {
                self.expr(&m.receiver, out);
                for a in &m.args {
                    self.expr(a, out);
                }
                let kind = if n == "cas_bin" {
                    let null = m.args.iter().nth(1).map(|a| self.is_null_expr(a)).unwrap_or(false);
                    if null { "bin_null".to_string() } else { "bin_locked".to_string() }
                } else {
                    match self.write_kind(&m.receiver) {
                        Some(k) => k,
                        None => {
                            self.err(&format!("compare_exchange on unknown field: {}", toks(&*m.receiver)), m.span());
                            "unknown".into()
                        }
                    }
                };
                let r = self.tmp("cas");
                let g = m.args.iter().filter_map(|a| self.guard_of(a)).next();
                let mut src = toks(m);
                src.truncate(100);
                out.push(Sk::Cas { name: format!("ev_cas_{}", kind), kind: g.unwrap_or_default(), result: r.clone(), line: m.span().start().line, src });
                return Some(r);
            }
        }
        None
    }

    fn is_null_expr(&self, e: &syn::Expr) -> bool {
        match strip(e) {
            syn::Expr::Call(c) => toks(&*c.func).replace(' ', "") == "Shared::null",
            syn::Expr::Path(p) => p.path.get_ident().map(|i| self.null_known.contains(&i.to_string())).unwrap_or(false),
            _ => false,
        }
    }

    /// kind of the atomic a store/swap/cas/fetch_* is applied to, from the receiver's field name
    fn write_kind(&self, recv: &syn::Expr) -> Option<String> {
        let f = field_name(recv)?;
        let k = match f.as_str() {
            "value" | "next" | "first" | "root" | "prev" | "red" => "lk",
            "parent" | "left" | "right" => "lk",
            "size_ctl" => "ctl",
            "transfer_index" => "ti",
            "count" => "count",
            "table" => "table",
            "next_table" => {
                if self.f.owner == "Table" { "tbl_next" } else { "next_table" }
            }
            "lock_state" => "lock_state",
            "waiter" => "waiter",
            "moved" => "owned",
            _ => return None,
        };
        Some(k.to_string())
    }

    fn mac(&mut self, m: &syn::Macro, out: &mut Vec<Sk>) {
        let name = m.path.segments.last().map(|s| s.ident.to_string()).unwrap_or_default();
        let line = m.span().start().line;
        match name.as_str() {
            "unreachable" | "panic" | "unimplemented" | "todo" => {
                let ev = if self.cfg.forbid_panic.contains(&self.f.key) { "ev_forbidden_panic" } else { "ev_panic" };
                out.push(self.ev(ev, vec![], m, line));
            }
            "assert" | "assert_eq" | "assert_ne" => {
                if let Ok(args) = m.parse_body_with(syn::punctuated::Punctuated::<syn::Expr, syn::Token![,]>::parse_terminated) {
                    for (i, a) in args.iter().enumerate() {
                        if i < 2 && !matches!(a, syn::Expr::Lit(_)) {
                            self.expr(a, out);
                        }
                    }
                }
                let ev = if self.cfg.forbid_panic.contains(&self.f.key) { "ev_forbidden_panic" } else { "ev_panic" };
                let p = self.ev(ev, vec![], m, line);
                out.push(Sk::If { cond: Cond::Nondet, then: vec![p], els: vec![], line });
            }
            "debug_assert" | "debug_assert_eq" | "debug_assert_ne" if self.cfg.forbid_panic.contains(&self.f.key) => {
                // in a function that must not panic a debug assertion is a panic site of debug builds
                let p = self.ev("ev_forbidden_panic", vec![], m, line);
                out.push(Sk::If { cond: Cond::Nondet, then: vec![p], els: vec![], line });
            }
            "debug_assert" | "debug_assert_eq" | "debug_assert_ne" | "cfg" | "write" | "writeln" | "format" | "println" | "eprintln" | "matches" => {}
            "treenode" | "load_factor" | "vec" => {
                if let Ok(args) = m.parse_body_with(syn::punctuated::Punctuated::<syn::Expr, syn::Token![,]>::parse_terminated) {
                    for a in args.iter() {
                        self.expr(a, out);
                    }
                }
            }
            _ => self.err(&format!("macro {}!", name), m.span()),
        }
    }

    fn consume_iter(&mut self, v: &Var, line: usize, out: &mut Vec<Sk>, closure_body: Option<Vec<Sk>>) {
        // an external adapter / for loop drives a flurry iterator: next() is called an unknown number of times
        let ty = v.ty.clone().unwrap_or_default();
        let key = format!("{}::Iterator::next", ty);
        let id = self.next_loop;
        self.next_loop += 1;
        let mut body = vec![Sk::Call { callee: key, root: 1, guards: vec![v.fg.clone().unwrap_or_else(|| "g_unknown".into())], bools: vec![], result: None, line }];
        body.push(Sk::If { cond: Cond::Nondet, then: vec![Sk::Break(id)], els: vec![], line });
        if let Some(cb) = closure_body {
            body.extend(cb);
        }
        out.push(Sk::Loop { body, id, line });
    }

    fn closure_body(&mut self, c: &syn::ExprClosure) -> Vec<Sk> {
        self.scopes.push(BTreeMap::new());
        for p in &c.inputs {
            self.bind_pat(p, None, None);
        }
        let mut b = vec![];
        // a closure body is its own control-flow region: `return` inside would leave the closure only
        let saved = std::mem::take(&mut self.loops);
        self.expr(&c.body, &mut b);
        self.loops = saved;
        self.scopes.pop();
        b
    }

    pub fn expr(&mut self, e: &syn::Expr, out: &mut Vec<Sk>) -> Option<Var> {
        let line = e.span().start().line;
        if let Some(v) = self.old_bin_var.clone() {
            let first_arg_is_bin = |args: &syn::punctuated::Punctuated<syn::Expr, syn::token::Comma>| matches!(args.first(), Some(syn::Expr::Path(p)) if p.path.is_ident(v.as_str()));
            let hit = match e {
                syn::Expr::Call(c) => toks(&*c.func).replace(' ', "").ends_with("defer_drop_without_values") && first_arg_is_bin(&c.args),
                syn::Expr::MethodCall(m) => m.method == "retire_shared" && first_arg_is_bin(&m.args),
                _ => false,
            };
            if hit {
                out.push(Sk::Set { name: "g_retired".into(), val: BVal::Lit(true) });
            }
        }
        match e {
            syn::Expr::Lit(_) => None,
            syn::Expr::Path(p) => {
                if let Some(i) = p.path.get_ident() {
                    return self.lookup(&i.to_string()).cloned();
                }
                None
            }
            syn::Expr::Paren(p) => self.expr(&p.expr, out),
            syn::Expr::Group(p) => self.expr(&p.expr, out),
            syn::Expr::Reference(r) => self.expr(&r.expr, out),
            syn::Expr::Unary(u) => {
                let v = self.expr(&u.expr, out);
                if matches!(u.op, syn::UnOp::Deref(_)) { v } else { None }
            }
            syn::Expr::Cast(c) => {
                self.expr(&c.expr, out);
                None
            }
            syn::Expr::Binary(b) => {
                self.expr(&b.left, out);
                // in a function that must not panic: a division or remainder whose divisor is not a non-zero literal (or a .max(1) /
                // NonZero value) may divide by zero
                if self.cfg.forbid_panic.contains(&self.f.key) && matches!(b.op, syn::BinOp::Div(_) | syn::BinOp::Rem(_) | syn::BinOp::DivAssign(_) | syn::BinOp::RemAssign(_)) {
                    let rt = toks(&*b.right).replace(' ', "");
                    let nonzero_lit = matches!(strip(&b.right), syn::Expr::Lit(l) if toks(l).trim_start_matches('0').trim_start_matches('_').chars().next().map(|c| c.is_ascii_digit() && c != '0').unwrap_or(false) || toks(l).contains(|c: char| ('1'..='9').contains(&c)));
                    if !(nonzero_lit || rt.contains(".max(1)") || rt.contains("NonZero") || rt.contains(".get()")) {
                        let p = self.ev("ev_forbidden_panic", vec![], b, line);
                        out.push(Sk::If { cond: Cond::Nondet, then: vec![p], els: vec![], line });
                    }
                }
                // short-circuit operators: the right operand is evaluated conditionally
                if matches!(b.op, syn::BinOp::And(_) | syn::BinOp::Or(_)) {
                    let mut r = vec![];
                    self.expr(&b.right, &mut r);
                    if !r.is_empty() {
                        out.push(Sk::If { cond: Cond::Nondet, then: r, els: vec![], line });
                    }
                } else {
                    self.expr(&b.right, out);
                }
                None
            }
            syn::Expr::Field(f) => {
                let b = self.expr(&f.base, out);
                if let (Some(bv), syn::Member::Named(m)) = (&b, &f.member) {
                    if let Some(t) = &bv.ty {
                        if let Some(si) = self.idx.structs.get(t.as_str()) {
                            if let Some((_, fty)) = si.fields.iter().find(|(n, _)| m == n) {
                                let ty = norm_ty(fty, t);
                                let kind = bv.kind.clone();
                                let keep = matches!(kind, VK::OtherMap(_));
                                return Some(Var { ty, kind: if keep { kind } else { VK::Plain }, fg: bv.fg.clone() });
                            }
                        }
                    }
                }
                None
            }
            syn::Expr::Index(i) => {
                self.expr(&i.expr, out);
                self.expr(&i.index, out);
                None
            }
            syn::Expr::Tuple(t) => {
                for x in &t.elems {
                    self.expr(x, out);
                }
                None
            }
            syn::Expr::Array(t) => {
                for x in &t.elems {
                    self.expr(x, out);
                }
                None
            }
            syn::Expr::Range(r) => {
                if let Some(s) = &r.start {
                    self.expr(s, out);
                }
                if let Some(s) = &r.end {
                    self.expr(s, out);
                }
                None
            }
            syn::Expr::Struct(s) => {
                let name = s.path.segments.last().map(|x| x.ident.to_string()).unwrap_or_default();
                let name = if name == "Self" { self.f.owner.clone() } else { name };
                let mut fg = None;
                for f in &s.fields {
                    if let syn::Member::Named(m) = &f.member {
                        if m == "guard" {
                            // a guard is stored into a struct field: type invariant "field guard belongs to the map"
                            if let Some(g) = self.guard_of(&f.expr) {
                                if ITER_TYPES.contains(&name.as_str()) {
                                    out.push(self.ev("ev_store_guard", vec![g.clone(), "1".into()], &f.expr, line));
                                }
                                fg = Some(g);
                                continue;
                            }
                            // GuardRef::Owned(self.guard()) / GuardRef::Ref(guard)
                            if let syn::Expr::Call(c) = &f.expr {
                                if let Some(a) = c.args.first() {
                                    if let Some(g) = self.guard_of(a) {
                                        fg = Some(g);
                                        continue;
                                    }
                                    if let Some(v) = self.expr(a, out) {
                                        if let VK::Guard(g) = v.kind {
                                            fg = Some(g);
                                            continue;
                                        }
                                    }
                                    continue;
                                }
                            }
                        }
                    }
                    let v = self.expr(&f.expr, out);
                    if let (Some(v), syn::Member::Named(m)) = (v, &f.member) {
                        if m == "node_iter" && fg.is_none() {
                            fg = v.fg;
                        }
                    }
                }
                if let Some(r) = &s.rest {
                    self.expr(r, out);
                }
                Some(Var { ty: Some(name), kind: VK::Plain, fg })
            }
            syn::Expr::Block(b) => {
                let t = self.block(&b.block, out);
                Self::vty(t)
            }
            syn::Expr::Unsafe(b) => {
                // value of the block = value of its tail expression (kept for typing)
                self.scopes.push(BTreeMap::new());
                let mut last = None;
                let n = b.block.stmts.len();
                for (i, s) in b.block.stmts.iter().enumerate() {
                    if i + 1 == n {
                        if let syn::Stmt::Expr(e2, None) = s {
                            last = self.expr(e2, out);
                            continue;
                        }
                    }
                    self.stmt(s, out);
                }
                self.scopes.pop();
                last
            }
            syn::Expr::Macro(m) => {
                self.mac(&m.mac, out);
                None
            }
            syn::Expr::Assign(a) => {
                if self.in_moved_arm && (toks(&*a.right).contains("help_transfer") || toks(&*a.right).contains("next_table")) && toks(&*a.left).contains("table") {
                    // the retry goes on with the table the forwarding leads to
                    out.push(Sk::Set { name: "g_moved_progress".into(), val: BVal::Lit(true) });
                }
                if let syn::Expr::Path(p) = &*a.left {
                    if let Some(i) = p.path.get_ident() {
                        let n = i.to_string();
                        if self.lookup(&n).map(|v| v.kind == VK::Tracked).unwrap_or(false) {
                            self.assign_tracked(&n, &a.right, out);
                            return None;
                        }
                        let v = self.expr(&a.right, out);
                        if let Some(v) = v {
                            // keep type information flowing through reassignments (`table = self.help_transfer(..)`)
                            let old = self.lookup(&n).cloned();
                            if let Some(mut o) = old {
                                if o.ty.is_none() {
                                    o.ty = v.ty;
                                    for s in self.scopes.iter_mut().rev() {
                                        if s.contains_key(&n) {
                                            s.insert(n.clone(), o);
                                            break;
                                        }
                                    }
                                }
                            }
                        }
                        return None;
                    }
                }
                self.expr(&a.right, out);
                self.expr(&a.left, out);
                None
            }
            syn::Expr::If(i) => {
                let c = self.cond(&i.cond, out);
                let mut th = vec![];
                let pushed = self.push_null_known(&i.cond);
                self.scopes.push(BTreeMap::new());
                self.block(&i.then_branch, &mut th);
                self.scopes.pop();
                if pushed {
                    self.null_known.pop();
                }
                let mut el = vec![];
                if let Some((_, e2)) = &i.else_branch {
                    self.expr(e2, &mut el);
                }
                // lock validation: `if <re-read of the bin> != bin { continue | return }` under a held lock
                let is_validation = !self.locks.is_empty() && i.else_branch.is_none() && self.is_reread_cmp(&i.cond) && {
                    // the branch leaves the critical attempt: its last statement is `continue` or `return` (whatever it does before,
                    // e.g. bookkeeping, is walked like any other code)
                    matches!(i.then_branch.stmts.last(), Some(syn::Stmt::Expr(syn::Expr::Continue(_), _)) | Some(syn::Stmt::Expr(syn::Expr::Return(_), _)))
                };
                out.push(Sk::If { cond: c, then: th, els: el, line });
                if is_validation {
                    out.push(self.ev("ev_validate", vec![], &*i.cond, line));
                }
                None
            }
            syn::Expr::Let(l) => {
                let v = self.expr(&l.expr, out);
                let (ty, fg) = v.map(|v| (v.ty, v.fg)).unwrap_or((None, None));
                self.bind_pat(&l.pat, ty.as_deref(), fg);
                None
            }
            syn::Expr::Match(m) => {
                // a compare-exchange matched on Ok/Err keeps its outcome
                let mut cas_var = None;
                let arms_okerr = m.arms.iter().all(|a| {
                    let s = toks(&a.pat);
                    s.starts_with("Ok") || s.starts_with("Err")
                });
                if arms_okerr {
                    cas_var = self.cas(&m.expr, out);
                }
                let sv = if cas_var.is_none() { self.expr(&m.expr, out) } else { None };
                let (sty, sfg) = sv.map(|v| (v.ty, v.fg)).unwrap_or((None, None));
                let mut arms: Vec<(Cond, Vec<Sk>)> = vec![];
                let mut match_val: Option<Var> = None;
                for a in &m.arms {
                    self.scopes.push(BTreeMap::new());
                    self.bind_pat(&a.pat, sty.as_deref(), sfg.clone());
                    let mut b = vec![];
                    // old-bin ledger (C04): in the Tree arm of a listed function the matched bin is either passed on
                    // (it is the value of a block) or retired, exactly once
                    let pat_s = toks(&a.pat).replace(' ', "");
                    let ledger_arm = self.cfg.old_bin_ledger.contains(&self.f.key) && pat_s.starts_with("BinEntry::Tree(");
                    let moved_arm = pat_s == "BinEntry::Moved" && !self.loops.is_empty() && toks(&a.body).contains("continue");
                    let saved_moved = self.in_moved_arm;
                    if moved_arm {
                        self.in_moved_arm = true;
                        b.push(Sk::Decl { name: "g_moved_progress".into(), init: BVal::Lit(false) });
                    }
                    let saved_obv = self.old_bin_var.clone();
                    if ledger_arm {
                        self.old_bin_var = leftmost_ident(&m.expr);
                        b.push(Sk::Decl { name: "g_reuse".into(), init: BVal::Lit(false) });
                        b.push(Sk::Decl { name: "g_retired".into(), init: BVal::Lit(false) });
                    }
                    if let Some((_, g)) = &a.guard {
                        self.expr(g, &mut b);
                    }
                    let av = self.expr(&a.body, &mut b);
                    if match_val.is_none() {
                        if let Some(v) = av {
                            if v.ty.is_some() {
                                match_val = Some(v);
                            }
                        }
                    }
                    if ledger_arm {
                        b.push(Sk::Raw("assert(!(g_reuse && g_retired));   // OBL:C04:old_tree_bin_passed_on_into_the_next_table_is_not_retired".into()));
                        b.push(Sk::Raw("assert(g_reuse || g_retired);   // OBL:C04:old_tree_bin_not_passed_on_is_retired".into()));
                    }
                    self.old_bin_var = saved_obv;
                    self.in_moved_arm = saved_moved;
                    self.scopes.pop();
                    let c = match &cas_var {
                        Some(r) => Cond::Var(r.clone(), toks(&a.pat).starts_with("Err")),
                        None => Cond::Nondet,
                    };
                    arms.push((c, b));
                }
                // nested if chain; the last arm is the else
                let n_arms = arms.len();
                let mut chain: Vec<Sk> = vec![];
                for (k, (c, b)) in arms.into_iter().enumerate().rev() {
                    if k + 1 == n_arms && n_arms > 1 {
                        chain = b;
                    } else if n_arms == 1 {
                        chain = b;
                    } else {
                        chain = vec![Sk::If { cond: c, then: b, els: chain, line }];
                    }
                }
                out.extend(chain);
                match_val
            }
            syn::Expr::Loop(l) => {
                self.loop_(&l.body, l.label.as_ref().map(|l| l.name.ident.to_string()), None, None, line, out);
                None
            }
            syn::Expr::While(w) => {
                // while c { body }  ==  loop { c-events; if nondet { break }; body }
                let id_peek = self.next_loop;
                let mut pre = vec![];
                self.scopes.push(BTreeMap::new());
                let c = self.cond(&w.cond, &mut pre);
                let brk = Sk::If {
                    cond: match c {
                        Cond::Var(v, n) => Cond::Var(v, !n),
                        Cond::Nondet => Cond::Nondet,
                    },
                    then: vec![Sk::Break(id_peek)],
                    els: vec![],
                    line,
                };
                pre.push(brk);
                // a loop whose continuation condition re-reads a shared field of the map (`self.<field>.load(..)`) goes round until
                // another thread changes that field: every further round is a wait (spin-wait), like park / yield_now / spin_loop
                {
                    let ct = toks(&*w.cond).replace(' ', "");
                    if ct.contains("self.") && ct.contains(".load(") {
                        let ev = self.ev("ev_wait", vec![], &*w.cond, line);
                        pre.push(ev);
                    }
                }
                self.loop_(&w.body, w.label.as_ref().map(|l| l.name.ident.to_string()), Some(pre), None, line, out);
                self.scopes.pop();
                None
            }
            syn::Expr::ForLoop(f) => {
                let v = self.expr(&f.expr, out);
                let id_peek = self.next_loop;
                let mut pre = vec![];
                let is_flurry_iter = v.as_ref().and_then(|v| v.ty.clone()).map(|t| ITER_TYPES.contains(&t.as_str())).unwrap_or(false);
                if is_flurry_iter {
                    let v = v.clone().unwrap();
                    pre.push(Sk::Call { callee: format!("{}::Iterator::next", v.ty.clone().unwrap()), root: 1, guards: vec![v.fg.clone().unwrap_or_else(|| "g_unknown".into())], bools: vec![], result: None, line });
                }
                pre.push(Sk::If { cond: Cond::Nondet, then: vec![Sk::Break(id_peek)], els: vec![], line });
                self.scopes.push(BTreeMap::new());
                self.bind_pat(&f.pat, None, None);
                self.loop_(&f.body, f.label.as_ref().map(|l| l.name.ident.to_string()), Some(pre), None, line, out);
                self.scopes.pop();
                None
            }
            syn::Expr::Break(b) => {
                let li = self.find_loop(&b.label);
                match li {
                    Some(li) => {
                        let (id, depth, bv) = { let c = &self.loops[li]; (c.id, c.depth, c.break_var.clone()) };
                        if let Some(val) = &b.expr {
                            match bv {
                                Some(var) => self.assign_tracked(&var, val, out),
                                None => { self.expr(val, out); }
                            }
                        }
                        self.exit_scopes(depth, out);
                        out.push(Sk::Break(id));
                    }
                    None => self.err("break outside loop", b.span()),
                }
                None
            }
            syn::Expr::Continue(c) => {
                match self.find_loop(&c.label) {
                    Some(li) => {
                        let (id, depth) = { let c = &self.loops[li]; (c.id, c.depth) };
                        self.exit_scopes(depth, out);
                        if self.in_moved_arm {
                            out.push(Sk::Raw("assert(g_moved_progress);   // OBL:C11:retry_after_a_forwarded_bin_continues_on_the_table_it_forwards_to".into()));
                        }
                        out.push(Sk::Continue(id));
                    }
                    None => self.err("continue outside loop", c.span()),
                }
                None
            }
            syn::Expr::Return(r) => {
                let mut bv = BVal::Nondet;
                if let Some(v) = &r.expr {
                    self.expr(v, out);
                    if fn_returns_bool(self.f) {
                        bv = self.bval_of(v);
                    }
                }
                self.exit_scopes(0, out);
                out.push(Sk::Return(bv));
                None
            }
            syn::Expr::Try(t) => {
                let v = self.expr(&t.expr, out);
                let mut th = vec![];
                self.exit_scopes(0, &mut th);
                th.push(Sk::Return(BVal::Nondet));
                out.push(Sk::If { cond: Cond::Nondet, then: th, els: vec![], line });
                v.map(|mut v| {
                    v.ty = v.ty.and_then(|t| wrap_inner(&t, "Option"));
                    v
                })
            }
            syn::Expr::Closure(c) => {
                // a closure that is not an argument of a call: evaluated lazily, treated at its use
                let b = self.closure_body(c);
                if !b.is_empty() {
                    let id = self.next_loop;
                    self.next_loop += 1;
                    let mut body = vec![Sk::If { cond: Cond::Nondet, then: vec![Sk::Break(id)], els: vec![], line }];
                    body.extend(b);
                    out.push(Sk::Loop { body, id, line });
                }
                None
            }
            syn::Expr::Call(c) => self.call(c, out),
            syn::Expr::MethodCall(m) => self.method_call(m, out),
            _ => {
                self.err(&format!("expression kind: {}", { let mut s = toks(e); s.truncate(60); s }), e.span());
                None
            }
        }
    }

    fn is_reread_cmp(&self, c: &syn::Expr) -> bool {
        if let syn::Expr::Binary(b) = strip(c) {
            if matches!(b.op, syn::BinOp::Ne(_)) {
                for side in [&b.left, &b.right] {
                    match strip(side) {
                        syn::Expr::Path(p) => {
                            if let Some(i) = p.path.get_ident() {
                                if self.lookup(&i.to_string()).map(|v| v.kind == VK::Reread).unwrap_or(false) {
                                    return true;
                                }
                            }
                        }
                        syn::Expr::MethodCall(m) if m.method == "bin" => return true,
                        _ => {}
                    }
                }
            }
        }
        false
    }
}

// ====================================================================== calls
impl<'a> Walker<'a> {
    fn candidates(&self, name: &str, nargs: usize, has_self: Option<bool>) -> Vec<&'a FnInfo> {
        let mut v = vec![];
        if let Some(ixs) = self.by_name.get(name) {
            for &i in ixs {
                let f = &self.idx.fns[i];
                let (hs, _) = fn_has_self(f);
                let n = f.sig.inputs.len() - if hs { 1 } else { 0 };
                if n == nargs && has_self.map(|h| h == hs).unwrap_or(true) {
                    v.push(f);
                }
            }
        }
        v
    }

    fn emit_call(&mut self, callee: &'a FnInfo, recv: Option<&Var>, recv_expr: Option<&syn::Expr>, args: Vec<&syn::Expr>, line: usize, out: &mut Vec<Sk>) -> Option<Var> {
        // arguments are evaluated first (closures passed to flurry functions only contribute their callbacks,
        // which the callee's own skeleton accounts for)
        let mut arg_vals: Vec<Option<Var>> = vec![];
        for a in &args {
            if let syn::Expr::Closure(c) = strip(a) {
                let b = self.closure_body(c);
                let only_cb = !contains_ev(&b, &|s| match s {
                    Sk::Ev { name, .. } => name != "ev_callback",
                    Sk::Call { .. } | Sk::Cas { .. } | Sk::MkGuard { .. } => true,
                    _ => false,
                });
                if !only_cb {
                    self.err("closure with effects passed to a flurry function", a.span());
                }
                arg_vals.push(None);
            } else {
                arg_vals.push(self.expr(a, out));
            }
        }
        if self.cfg.primitive_fns.contains(&callee.key) {
            return Self::vty(callee_ret_ty(callee));
        }
        let (hs, _) = fn_has_self(callee);
        let mut guards = vec![];
        if hs && struct_guard_field(self.idx, &callee.owner) {
            guards.push(recv.and_then(|r| r.fg.clone()).unwrap_or_else(|| "g_unknown".into()));
        }
        let mut bools = vec![];
        let mut j = 0;
        for inp in &callee.sig.inputs {
            if let syn::FnArg::Typed(t) = inp {
                if let Some(a) = args.get(j) {
                    if is_guard_type(&t.ty) {
                        let inline = arg_vals.get(j).and_then(|v| v.as_ref()).and_then(|v| if let VK::Guard(g) = &v.kind { Some(g.clone()) } else { None });
                        match self.guard_of(a).or(inline) {
                            Some(g) => guards.push(g),
                            None => {
                                self.err(&format!("guard argument not traceable: {}", toks(*a)), a.span());
                                guards.push("g_unknown".into());
                            }
                        }
                    } else if is_bool_or_option(&t.ty) {
                        let b = self.bval_of(a);
                        bools.push(b);
                    }
                }
                j += 1;
            }
        }
        let root = recv_expr.map(|r| self.root_of(r)).unwrap_or(1);
        let first_guard = guards.first().cloned();
        out.push(Sk::Call { callee: callee.key.clone(), root, guards, bools, result: None, line });
        let rty = callee_ret_ty(callee);
        let mut v = Var { ty: rty.clone(), kind: VK::Plain, fg: None };
        if let Some(t) = &rty {
            if ITER_TYPES.contains(&t.as_str()) || t == "HashMapRef" || t == "HashSetRef" {
                v.fg = first_guard;
            }
            if MAP_TYPES.contains(&t.as_str()) && !hs {
                // constructor: a new map object with its own collector
                v.kind = VK::OtherMap(self.next_root);
                self.next_root += 1;
            }
            if MAP_TYPES.contains(&t.as_str()) && hs {
                if let Some(r) = recv {
                    if let VK::OtherMap(_) = r.kind {
                        v.kind = r.kind.clone(); // builder-style `with_collector(self) -> Self`
                    }
                }
            }
        }
        Some(v)
    }

    fn call(&mut self, c: &syn::ExprCall, out: &mut Vec<Sk>) -> Option<Var> {
        let line = c.span().start().line;
        let args: Vec<&syn::Expr> = c.args.iter().collect();
        let p = match &*c.func {
            syn::Expr::Path(p) => p,
            other => {
                self.expr(other, out);
                for a in &args {
                    self.expr(a, out);
                }
                return None;
            }
        };
        let segs = path_segs(&p.path);
        let last = segs.last().cloned().unwrap_or_default();
        let full = segs.join("::");
        // local callable: user callback?
        if segs.len() == 1 {
            if let Some(v) = self.lookup(&last).cloned() {
                for a in &args {
                    self.expr(a, out);
                }
                if v.kind == VK::Callback {
                    out.push(self.ev("ev_callback", vec![], c, line));
                }
                return None;
            }
        }
        // std's allocation constructors panic ("capacity overflow") when the requested capacity exceeds isize::MAX bytes
        // (documented precondition of Vec/VecDeque/String/std HashMap::with_capacity and reserve): in a function that must
        // not panic the argument has to be a literal or clamped by a `min`
        if self.cfg.forbid_panic.contains(&self.f.key)
            && (last == "with_capacity" || last == "with_capacity_in")
            && segs.len() >= 2
            && matches!(segs[segs.len() - 2].as_str(), "Vec" | "VecDeque" | "String" | "BinaryHeap" | "StdHashMap" | "StdHashSet")
        {
            let clamped = args.first().map(|a| { let t = toks(*a).replace(' ', ""); matches!(strip(a), syn::Expr::Lit(_)) || t.contains(".min(") || t.contains("min(") || t.contains("cautious") }).unwrap_or(true);
            if !clamped {
                let pv = self.ev("ev_forbidden_panic", vec![], c, line);
                out.push(Sk::If { cond: Cond::Nondet, then: vec![pv], els: vec![], line });
            }
        }
        // std::mem::forget(<bin lock guard>): the lock is then released by hand (force_unlock); a user callback that panics in
        // between leaves it locked for ever (C18)
        if (full == "std::mem::forget" || full == "mem::forget" || full == "forget") && args.first().map(|a| toks(*a).replace(' ', "").contains(".lock.lock()")).unwrap_or(false) {
            out.push(Sk::Raw("assert(false);   // OBL:C18:a_bin_lock_is_released_by_its_guard_also_when_a_callback_panics".into()));
        }
        match full.as_str() {
            "drop" => {
                if let Some(syn::Expr::Path(ap)) = args.first().map(|a| strip(a)) {
                    if let Some(i) = ap.path.get_ident() {
                        let n = i.to_string();
                        if let Some(pos) = self.locks.iter().position(|(l, _)| *l == n) {
                            self.locks.remove(pos);
                            out.push(self.ev("ev_unlock", vec![], c, line));
                            return None;
                        }
                        if let Some(v) = self.lookup(&n).cloned() {
                            if v.ty.as_deref() == Some("TreeBin") {
                                if let Some(f) = self.idx.find_fn("TreeBin::Drop::drop") {
                                    out.push(Sk::Call { callee: f.key.clone(), root: 1, guards: vec![], bools: vec![], result: None, line });
                                }
                            }
                        }
                        return None;
                    }
                }
                for a in &args {
                    self.expr(a, out);
                }
                return None;
            }
            "Guard::unprotected" => {
                let g = self.tmp("g_unprot");
                out.push(Sk::MkGuard { name: g.clone(), how: "unprotected".into(), root: 0, line });
                return Some(Var { ty: Some("Guard".into()), kind: VK::Guard(g), fg: None });
            }
            "Shared::boxed" => {
                for a in &args {
                    self.expr(a, out);
                }
                out.push(self.ev("ev_alloc", vec![], c, line));
                return None;
            }
            "park" | "std::thread::park" | "std::thread::yield_now" | "thread::yield_now" | "yield_now" | "std::hint::spin_loop" | "spin_loop" | "hint::spin_loop" => {
                out.push(self.ev("ev_wait", vec![], c, line));
                return None;
            }
            _ => {}
        }
        // path call into flurry?
        if segs.len() >= 2 {
            let mut owner = segs[segs.len() - 2].clone();
            if owner == "Self" {
                owner = self.f.owner.clone();
            }
            let cands: Vec<&FnInfo> = self
                .candidates(&last, args.len(), None)
                .into_iter()
                .filter(|f| f.owner == owner || f.trait_name.as_deref() == Some(owner.as_str()))
                .collect();
            if !cands.is_empty() {
                let mut pick = cands[0];
                if cands.len() > 1 {
                    // trait-qualified call: receiver is the first argument
                    let rt = args.first().and_then(|a| { let mut scratch = vec![]; self.expr(a, &mut scratch).and_then(|v| v.ty) });
                    if let Some(rt) = rt {
                        if let Some(f) = cands.iter().find(|f| f.owner == rt) {
                            pick = f;
                        }
                    }
                    self.ambiguous.push(format!("{}:{} {} -> {}", self.f.key, line, full, pick.key));
                }
                let (hs, _) = fn_has_self(pick);
                if hs && !args.is_empty() {
                    let r = args[0];
                    let rv = self.expr(r, out);
                    return self.emit_call(pick, rv.as_ref(), Some(r), args[1..].to_vec(), line, out);
                }
                return self.emit_call(pick, None, None, args, line, out);
            }
        }
        // external function / constructor
        let mut vals = vec![];
        for a in &args {
            if let syn::Expr::Closure(cl) = strip(a) {
                let b = self.closure_body(cl);
                if !b.is_empty() {
                    let id = self.next_loop;
                    self.next_loop += 1;
                    let mut body = vec![Sk::If { cond: Cond::Nondet, then: vec![Sk::Break(id)], els: vec![], line }];
                    body.extend(b);
                    out.push(Sk::Loop { body, id, line });
                }
                vals.push(None);
            } else {
                vals.push(self.expr(a, out));
            }
        }
        for v in vals.iter().flatten() {
            if v.ty.as_deref().map(|t| ITER_TYPES.contains(&t)).unwrap_or(false) {
                self.consume_iter(v, line, out, None);
            }
        }
        // enum / tuple-struct constructors keep the payload type where it matters
        if last == "Some" {
            let it = vals.into_iter().next().flatten();
            return it.map(|mut v| {
                v.ty = v.ty.map(|t| format!("Option<{}>", t));
                v
            });
        }
        None
    }

    fn method_call(&mut self, m: &syn::ExprMethodCall, out: &mut Vec<Sk>) -> Option<Var> {
        let line = m.span().start().line;
        let name = m.method.to_string();
        let args: Vec<&syn::Expr> = m.args.iter().collect();
        // inspected compare-exchange handled by cond(); a bare one lands here
        if name == "compare_exchange" || name == "cas_bin" {
            let e = syn::Expr::MethodCall(m.clone());
            self.cas(&e, out);
            return None;
        }
        if name == "check_guard" {
            self.expr(&m.receiver, out);
            let g = args.first().and_then(|a| self.guard_of(a));
            match g {
                Some(g) => {
                    let root = self.root_of(&m.receiver);
                    out.push(self.ev("ev_check", vec![g, root.to_string()], m, line));
                }
                None => self.err("check_guard on a non-guard", m.span()),
            }
            return None;
        }
        let rv = self.expr(&m.receiver, out);
        let rty = rv.as_ref().and_then(|v| v.ty.clone());
        let recv_field = field_name(&m.receiver);
        let guard_args: Vec<String> = args.iter().filter_map(|a| self.guard_of(a)).collect();
        let root = self.root_of(&m.receiver);
        let eval_args = |w: &mut Self, out: &mut Vec<Sk>| {
            for a in &args {
                if w.guard_of(a).is_none() {
                    w.expr(a, out);
                }
            }
        };
        match name.as_str() {
            "guard" | "enter" if args.is_empty() => {
                let is_map = rty.as_deref().map(|t| MAP_TYPES.contains(&t)).unwrap_or(false);
                if (name == "guard" && is_map) || (name == "enter" && recv_field.as_deref() == Some("collector")) {
                    let g = self.tmp("g_own");
                    out.push(Sk::MkGuard { name: g.clone(), how: "own".into(), root, line });
                    return Some(Var { ty: Some("Guard".into()), kind: VK::Guard(g), fg: None });
                }
            }
            "pin" if args.is_empty() => {
                let g = self.tmp("g_own");
                out.push(Sk::MkGuard { name: g.clone(), how: "own".into(), root, line });
                let t = if rty.as_deref() == Some("HashSet") { "HashSetRef" } else { "HashMapRef" };
                let kind = rv.as_ref().map(|v| v.kind.clone()).filter(|k| matches!(k, VK::OtherMap(_))).unwrap_or(VK::Plain);
                return Some(Var { ty: Some(t.into()), kind, fg: Some(g) });
            }
            "load" => {
                eval_args(self, out);
                if let Some(g) = guard_args.first() {
                    out.push(self.ev("ev_use", vec![g.clone(), root.to_string()], m, line));
                }
                let t = rty.as_deref().and_then(|t| wrap_inner(t, "Atomic")).map(|t| format!("Shared<{}>", t));
                return Some(Var { ty: t, kind: VK::Plain, fg: None });
            }
            "bin" | "next_table" if rty.as_deref() == Some("Table") || rty.is_none() => {
                eval_args(self, out);
                if let Some(g) = guard_args.first() {
                    out.push(self.ev("ev_use", vec![g.clone(), root.to_string()], m, line));
                    let t = if name == "bin" { "Shared<BinEntry>" } else { "Shared<Table>" };
                    return Self::vty(Some(t.into()));
                }
            }
            "store" | "swap" | "fetch_add" | "fetch_sub" => {
                eval_args(self, out);
                let through_fresh = leftmost_ident(&m.receiver).map(|n| self.fresh.contains(&n)).unwrap_or(false);
                let ev = match self.write_kind(&m.receiver).as_deref() {
                    Some("lk") if through_fresh && !self.owned => "ev_write_fresh",
                    Some("lk") => if self.owned { "ev_write_owned" } else { "ev_write_lk" },
                    Some("owned") => "ev_write_owned",
                    Some("ctl") => "ev_ctl_store",
                    Some("ti") => "ev_ti_store",
                    Some("count") => "ev_count_add",
                    Some("table") => if self.owned { "ev_write_owned" } else { "ev_write_table" },
                    Some("next_table") => if self.owned { "ev_write_owned" } else { "ev_write_next_table" },
                    Some("lock_state") => "ev_lock_state",
                    Some("waiter") => "ev_swap_waiter",
                    _ => {
                        self.err(&format!("{} on an unclassified atomic: {}", name, toks(&*m.receiver)), m.span());
                        "ev_write_lk"
                    }
                };
                out.push(self.ev(ev, vec![], m, line));
                let t = rty.as_deref().and_then(|t| wrap_inner(t, "Atomic")).map(|t| format!("Shared<{}>", t));
                return Some(Var { ty: t, kind: VK::Plain, fg: None });
            }
            "store_bin" => {
                let marker = args.get(1).map(|a| matches!(strip(a), syn::Expr::MethodCall(mm) if mm.method == "get_moved")).unwrap_or(false);
                eval_args(self, out);
                let rid = leftmost_ident(&m.receiver).unwrap_or_default();
                let role = self.cfg.store_bin_roles.get(&self.f.key).and_then(|r| r.get(&rid)).cloned().unwrap_or_else(|| "cur".into());
                let ev = if role == "nt" { "ev_store_nt_bin" } else if marker { "ev_store_marker" } else { "ev_store_bin" };
                out.push(self.ev(ev, vec![], m, line));
                return None;
            }
            "retire_shared" | "defer_retire" => {
                for a in &args {
                    if !matches!(strip(a), syn::Expr::Closure(_)) {
                        self.expr(a, out);
                    }
                }
                // what is retired: a value (Shared<V>, V a type parameter), a node/bin (Shared<BinEntry>), or something else
                let mut kind = "ev_retire";
                if name == "retire_shared" {
                    if let Some(a0) = args.first() {
                        let mut scratch = vec![];
                        let t = self.expr(a0, &mut scratch).and_then(|v| v.ty);
                        if let Some(t) = t {
                            if let Some(inner) = wrap_inner(&t, "Shared") {
                                if inner == "BinEntry" {
                                    kind = "ev_retire_node";
                                } else if self.f.impl_generics.contains(&inner) {
                                    kind = "ev_retire_value";
                                }
                            }
                        }
                    }
                }
                match self.guard_of(&m.receiver) {
                    Some(g) => out.push(self.ev(kind, vec![g, "1".into()], m, line)),
                    None => self.err("retire through an untraceable guard", m.span()),
                }
                return None;
            }
            "into_box" => {
                out.push(self.ev(if self.owned { "ev_free" } else { "ev_free_shared" }, vec![], m, line));
                let t = rty.as_deref().and_then(|t| wrap_inner(t, "Shared").or_else(|| wrap_inner(t, "Atomic")));
                return Self::vty(t);
            }
            "try_lock" if recv_field.as_deref() == Some("lock") => {
                // a bin lock that may be taken without waiting is still a bin lock taken (read paths must not take any)
                let a = self.ev("ev_lock", vec![], m, line);
                let b = self.ev("ev_unlock", vec![], m, line);
                out.push(Sk::If { cond: Cond::Nondet, then: vec![a, b], els: vec![], line });
                return None;
            }
            "lock" if recv_field.as_deref() == Some("lock") => {
                // a lock guard that is not bound to a named local is a temporary: taken and released again
                out.push(self.ev("ev_lock", vec![], m, line));
                out.push(self.ev("ev_unlock", vec![], m, line));
                return None;
            }
            "deref" | "as_ref" if args.is_empty() => {
                let t = rty.as_deref().and_then(|t| wrap_inner(t, "Shared"));
                if t.is_some() {
                    let t2 = if name == "as_ref" { t.map(|x| format!("Option<{}>", x)) } else { t };
                    return Some(Var { ty: t2, kind: rv.as_ref().map(|v| v.kind.clone()).unwrap_or(VK::Plain), fg: None });
                }
            }
            "unwrap" | "expect" => {
                eval_args(self, out);
                if self.cfg.forbid_panic.contains(&self.f.key) {
                    let p = self.ev("ev_forbidden_panic", vec![], m, line);
                    out.push(Sk::If { cond: Cond::Nondet, then: vec![p], els: vec![], line });
                }
                return rv.map(|mut v| {
                    v.ty = v.ty.and_then(|t| wrap_inner(&t, "Option"));
                    v
                });
            }
            "take" | "clone" | "borrow" | "as_mut" if rty.is_some() && self.candidates(&name, args.len(), Some(true)).iter().all(|f| Some(f.owner.as_str()) != rty.as_deref()) => {
                eval_args(self, out);
                return rv;
            }
            "collect" if self.f.trait_name.as_deref() == Some("FromIterator") => {
                if let Some(f) = self.idx.fns.iter().find(|f| f.key.starts_with("HashMap::FromIterator::from_iter") && f.key.ends_with("#0")) {
                    out.push(Sk::Call { callee: f.key.clone(), root: 1, guards: vec![], bools: vec![], result: None, line });
                }
                return None;
            }
            _ => {}
        }
        // flurry method?
        let cands = self.candidates(&name, args.len(), Some(true));
        if !cands.is_empty() {
            let typed: Vec<&FnInfo> = match &rty {
                Some(t) => cands.iter().copied().filter(|f| &f.owner == t).collect(),
                None => vec![],
            };
            if let Some(pick) = typed.first() {
                if typed.len() > 1 {
                    self.ambiguous.push(format!("{}:{} .{}() on {} -> {}", self.f.key, line, name, rty.clone().unwrap_or_default(), pick.key));
                }
                return self.emit_call(pick, rv.as_ref(), Some(&m.receiver), args, line, out);
            }
            let known_non_flurry = rty.is_some();
            if !known_non_flurry {
                self.unresolved.push(format!("{}:{} .{}({} args) receiver `{}` untyped; candidates: {}", self.f.key, line, name, args.len(), { let mut s = toks(&*m.receiver); s.truncate(50); s }, cands.iter().map(|f| f.key.clone()).collect::<Vec<_>>().join(",")));
            }
        }
        // external method
        let recv_is_iter = rty.as_deref().map(|t| ITER_TYPES.contains(&t)).unwrap_or(false);
        let mut closure_events: Vec<Sk> = vec![];
        let mut vals = vec![];
        for a in &args {
            if let syn::Expr::Closure(cl) = strip(a) {
                closure_events.extend(self.closure_body(cl));
            } else if self.guard_of(a).is_none() {
                vals.push(self.expr(a, out));
            }
        }
        for v in vals.iter().flatten() {
            if v.ty.as_deref().map(|t| ITER_TYPES.contains(&t)).unwrap_or(false) {
                self.consume_iter(v, line, out, None);
            }
        }
        if recv_is_iter && !matches!(name.as_str(), "by_ref") {
            let v = rv.clone().unwrap();
            self.consume_iter(&v, line, out, Some(closure_events));
            return None;
        }
        if !closure_events.is_empty() {
            let id = self.next_loop;
            self.next_loop += 1;
            let mut body = vec![Sk::If { cond: Cond::Nondet, then: vec![Sk::Break(id)], els: vec![], line }];
            body.extend(closure_events);
            out.push(Sk::Loop { body, id, line });
        }
        // a guard handed to an external method counts as a use
        if let Some(g) = guard_args.first() {
            out.push(self.ev("ev_use", vec![g.clone(), root.to_string()], m, line));
        }
        // type propagation through the common std adapters
        match name.as_str() {
            "map" | "filter" | "into_iter" | "iter" | "by_ref" | "as_deref" | "unwrap_or" | "unwrap_or_default" => rv,
            "is_null" | "is_some" | "is_none" | "is_ok" | "is_err" => None,
            _ => None,
        }
    }
}

pub fn fn_returns_bool(f: &FnInfo) -> bool {
    match &f.sig.output {
        syn::ReturnType::Type(_, t) => crate::emit::toks(&**t) == "bool",
        _ => false,
    }
}

pub fn callee_ret_ty(f: &FnInfo) -> Option<String> {
    match &f.sig.output {
        syn::ReturnType::Type(_, t) => norm_ty(t, &f.owner),
        _ => None,
    }
}
