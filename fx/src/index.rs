//! Source index: parses every file of /repo/src with syn and lists the functions
//! (free fns, inherent and trait impl fns), struct field types and macro_rules bodies.
use std::collections::BTreeMap;
use std::path::{Path, PathBuf};

use proc_macro2::Span;
use syn::spanned::Spanned;

#[derive(Clone)]
pub struct FnInfo {
    /// `Owner::name`, `Owner::Trait::name`, or `name` for free functions; `#k` appended for duplicates
    pub key: String,
    pub owner: String,
    pub owner_is_ref: bool,
    pub trait_name: Option<String>,
    pub name: String,
    pub file: String,
    pub line_start: usize,
    pub line_end: usize,
    pub is_pub: bool,
    pub sig: syn::Signature,
    pub block: syn::Block,
    pub impl_generics: Vec<String>,
}

pub struct StructInfo {
    pub name: String,
    pub fields: Vec<(String, syn::Type)>,
}

pub struct MacroInfo {
    pub name: String,
    pub file: String,
    pub line: usize,
    pub tokens: proc_macro2::TokenStream,
}

pub struct ConstInfo {
    pub name: String,
    pub file: String,
    pub line: usize,
    pub ty: String,
    pub expr: String,
    pub item_text: String,
}

pub struct SrcIndex {
    pub repo: PathBuf,
    pub fns: Vec<FnInfo>,
    pub structs: BTreeMap<String, StructInfo>,
    pub macros: Vec<MacroInfo>,
    pub consts: Vec<ConstInfo>,
    pub file_text: BTreeMap<String, String>,
}

fn has_cfg_test(attrs: &[syn::Attribute]) -> bool {
    for a in attrs {
        let p = a.path();
        if p.is_ident("test") {
            return true;
        }
        if p.is_ident("cfg") {
            let s = a.meta.to_token_stream_string();
            if s.contains("test") {
                return true;
            }
        }
    }
    false
}

trait TS {
    fn to_token_stream_string(&self) -> String;
}
impl<T: quote::ToTokens> TS for T {
    fn to_token_stream_string(&self) -> String {
        self.to_token_stream().to_string()
    }
}

pub fn type_head(ty: &syn::Type) -> (String, bool) {
    match ty {
        syn::Type::Reference(r) => {
            let (s, _) = type_head(&r.elem);
            (s, true)
        }
        syn::Type::Path(p) => (
            p.path
                .segments
                .last()
                .map(|s| s.ident.to_string())
                .unwrap_or_default(),
            false,
        ),
        syn::Type::Paren(p) => type_head(&p.elem),
        _ => (String::new(), false),
    }
}

pub fn line_of(sp: Span) -> usize {
    sp.start().line
}
pub fn end_line_of(sp: Span) -> usize {
    sp.end().line
}

impl SrcIndex {
    pub fn load(repo: &Path) -> Result<SrcIndex, String> {
        let mut idx = SrcIndex {
            repo: repo.to_path_buf(),
            fns: vec![],
            structs: BTreeMap::new(),
            macros: vec![],
            consts: vec![],
            file_text: BTreeMap::new(),
        };
        let files = [
            "src/map.rs",
            "src/node.rs",
            "src/raw/mod.rs",
            "src/reclaim.rs",
            "src/set.rs",
            "src/map_ref.rs",
            "src/set_ref.rs",
            "src/iter/mod.rs",
            "src/iter/traverser.rs",
            "src/serde_impls.rs",
            "src/rayon_impls.rs",
            "src/lib.rs",
        ];
        for f in files {
            let p = repo.join(f);
            let text = std::fs::read_to_string(&p).map_err(|e| format!("read {}: {}", p.display(), e))?;
            let ast = syn::parse_file(&text).map_err(|e| format!("parse {}: {}", f, e))?;
            idx.file_text.insert(f.to_string(), text);
            idx.walk_items(f, &ast.items);
        }
        // disambiguate duplicate keys in source order
        let mut seen: BTreeMap<String, usize> = BTreeMap::new();
        let mut counts: BTreeMap<String, usize> = BTreeMap::new();
        for f in &idx.fns {
            *counts.entry(f.key.clone()).or_insert(0) += 1;
        }
        for f in idx.fns.iter_mut() {
            if counts[&f.key] > 1 {
                let k = seen.entry(f.key.clone()).or_insert(0);
                let nk = format!("{}#{}", f.key, *k);
                *k += 1;
                f.key = nk;
            }
        }
        Ok(idx)
    }

    fn walk_items(&mut self, file: &str, items: &[syn::Item]) {
        for it in items {
            match it {
                syn::Item::Fn(f) => {
                    if has_cfg_test(&f.attrs) {
                        continue;
                    }
                    // cfg(miri) variants are skipped: the not(miri) one is what runs
                    let cfgs: String = f
                        .attrs
                        .iter()
                        .filter(|a| a.path().is_ident("cfg"))
                        .map(|a| a.meta.to_token_stream_string())
                        .collect();
                    if cfgs.contains("miri") && !cfgs.contains("not") {
                        continue;
                    }
                    self.fns.push(FnInfo {
                        key: f.sig.ident.to_string(),
                        owner: String::new(),
                        owner_is_ref: false,
                        trait_name: None,
                        name: f.sig.ident.to_string(),
                        file: file.to_string(),
                        line_start: line_of(f.span()),
                        line_end: end_line_of(f.span()),
                        is_pub: matches!(f.vis, syn::Visibility::Public(_)),
                        sig: f.sig.clone(),
                        block: (*f.block).clone(),
                        impl_generics: vec![],
                    });
                }
                syn::Item::Impl(im) => {
                    if has_cfg_test(&im.attrs) {
                        continue;
                    }
                    let (owner, is_ref) = type_head(&im.self_ty);
                    let trait_name = im
                        .trait_
                        .as_ref()
                        .map(|(_, p, _)| p.segments.last().unwrap().ident.to_string());
                    let gens: Vec<String> = im
                        .generics
                        .params
                        .iter()
                        .filter_map(|g| match g {
                            syn::GenericParam::Type(t) => Some(t.ident.to_string()),
                            _ => None,
                        })
                        .collect();
                    for ii in &im.items {
                        if let syn::ImplItem::Fn(f) = ii {
                            if has_cfg_test(&f.attrs) {
                                continue;
                            }
                            let name = f.sig.ident.to_string();
                            let key = match &trait_name {
                                Some(t) => format!("{}::{}::{}", owner, t, name),
                                None => format!("{}::{}", owner, name),
                            };
                            self.fns.push(FnInfo {
                                key,
                                owner: owner.clone(),
                                owner_is_ref: is_ref,
                                trait_name: trait_name.clone(),
                                name,
                                file: file.to_string(),
                                line_start: line_of(f.span()),
                                line_end: end_line_of(f.span()),
                                is_pub: matches!(f.vis, syn::Visibility::Public(_)) || trait_name.is_some(),
                                sig: f.sig.clone(),
                                block: f.block.clone(),
                                impl_generics: gens.clone(),
                            });
                        }
                    }
                }
                syn::Item::Struct(s) => {
                    let mut fields = vec![];
                    if let syn::Fields::Named(n) = &s.fields {
                        for f in &n.named {
                            fields.push((f.ident.as_ref().unwrap().to_string(), f.ty.clone()));
                        }
                    }
                    self.structs.insert(
                        s.ident.to_string(),
                        StructInfo {
                            name: s.ident.to_string(),
                            fields,
                        },
                    );
                }
                syn::Item::Macro(m) => {
                    if m.mac.path.is_ident("macro_rules") {
                        if let Some(id) = &m.ident {
                            self.macros.push(MacroInfo {
                                name: id.to_string(),
                                file: file.to_string(),
                                line: line_of(m.span()),
                                tokens: m.mac.tokens.clone(),
                            });
                        }
                    }
                }
                syn::Item::Const(c) => {
                    if has_cfg_test(&c.attrs) {
                        continue;
                    }
                    let mut c2 = c.clone();
                    c2.attrs.clear();
                    self.consts.push(ConstInfo {
                        name: c.ident.to_string(),
                        file: file.to_string(),
                        line: line_of(c.span()),
                        ty: c.ty.to_token_stream_string(),
                        expr: c.expr.to_token_stream_string(),
                        item_text: c2.to_token_stream_string(),
                    });
                }
                syn::Item::Mod(m) => {
                    if has_cfg_test(&m.attrs) {
                        continue;
                    }
                    if let Some((_, items)) = &m.content {
                        self.walk_items(file, items);
                    }
                }
                _ => {}
            }
        }
    }

    pub fn find_fn(&self, key: &str) -> Option<&FnInfo> {
        self.fns.iter().find(|f| f.key == key)
    }
}
