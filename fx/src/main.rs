//! fx — mechanical extractor/translator from /repo's working tree to the verified text.
//! Usage: fx gen --repo /repo --verif /verif --out /verif/gen [--units arith,effect,...]
mod arena;
mod arith;
mod effect;
mod effect_ir;
mod effect_ty;
mod effect_walk;
mod emit;
mod index;
mod select;

use serde_json::json;
use std::path::PathBuf;

fn arg(args: &[String], name: &str, def: &str) -> String {
    args.iter()
        .position(|a| a == name)
        .and_then(|i| args.get(i + 1).cloned())
        .unwrap_or_else(|| def.to_string())
}

fn main() {
    let args: Vec<String> = std::env::args().collect();
    if args.len() < 2 || args[1] != "gen" {
        eprintln!("usage: fx gen --repo DIR --verif DIR --out DIR [--units a,b]");
        std::process::exit(2);
    }
    let repo = PathBuf::from(arg(&args, "--repo", "/repo"));
    let verif = PathBuf::from(arg(&args, "--verif", "/verif"));
    let out = PathBuf::from(arg(&args, "--out", "/verif/gen"));
    let units: Vec<String> = arg(&args, "--units", "arith").split(',').map(|s| s.to_string()).collect();
    std::fs::create_dir_all(&out).expect("mkdir out");

    let idx = match index::SrcIndex::load(&repo) {
        Ok(i) => i,
        Err(e) => {
            // a source file that does not parse is not a property violation
            let j = json!({"fatal": e});
            std::fs::write(out.join("index.json"), serde_json::to_string_pretty(&j).unwrap()).unwrap();
            eprintln!("fx: {}", e);
            std::process::exit(2);
        }
    };

    let mut report = serde_json::Map::new();
    report.insert(
        "functions_indexed".into(),
        json!(idx.fns.iter().map(|f| json!({"key": f.key, "file": f.file, "lines": [f.line_start, f.line_end]})).collect::<Vec<_>>()),
    );

    for u in &units {
        match u.as_str() {
            "arith" => {
                let mut unit = serde_json::Map::new();
                for (tname, oname, consts) in [("arith.vrs", "arith.rs", true), ("arith_kani.rs", "kani_arith/src/lib.rs", true)] {
                    let tp = verif.join("specs").join(tname);
                    let template = match std::fs::read_to_string(&tp) {
                        Ok(t) => t,
                        Err(_) => continue,
                    };
                    let g = arith::generate(&idx, &template, &out.join(".scratch"), consts);
                    let op = out.join(oname);
                    std::fs::create_dir_all(op.parent().unwrap()).unwrap();
                    std::fs::write(&op, &g.text).unwrap();
                    unit.insert(
                        oname.to_string(),
                        json!({
                            "template": tp.display().to_string(),
                            "errors": g.errors,
                            "extracted": g.extracted.iter().map(|e| json!({
                                "directive": e.directive, "fn": e.fn_key, "file": e.file, "line": e.line,
                                "text": e.text, "sha256": e.sha256})).collect::<Vec<_>>(),
                        }),
                    );
                }
                report.insert("arith".into(), serde_json::Value::Object(unit));
            }
            u2 if u2 != "effect" && verif.join("specs").join(format!("{}.vrs", u2)).exists() => {
                let tp = verif.join("specs").join(format!("{}.vrs", u));
                let template = std::fs::read_to_string(&tp).unwrap_or_default();
                let g = arena::generate(&idx, &template);
                let fname = format!("{}.rs", u);
                std::fs::write(out.join(&fname), &g.text).unwrap();
                let mut unit = serde_json::Map::new();
                unit.insert(fname, json!({"template": tp.display().to_string(), "errors": g.errors, "extracted": g.extracted}));
                report.insert(u.clone(), serde_json::Value::Object(unit));
            }
            "effect" => {
                let prelude = std::fs::read_to_string(verif.join("specs/effect_prelude.vrs")).unwrap_or_default();
                let cfg: serde_json::Value = std::fs::read_to_string(verif.join("specs/effect.json")).ok().and_then(|s| serde_json::from_str(&s).ok()).unwrap_or(json!({}));
                let g = effect::generate(&idx, &prelude, &cfg);
                std::fs::write(out.join("effect.rs"), &g.text).unwrap();
                let mut unit = serde_json::Map::new();
                unit.insert("effect.rs".into(), json!({"errors": g.errors, "report": g.report}));
                report.insert("effect".into(), serde_json::Value::Object(unit));
            }
            other => {
                eprintln!("fx: unknown unit {}", other);
            }
        }
    }
    std::fs::write(out.join("index.json"), serde_json::to_string_pretty(&serde_json::Value::Object(report)).unwrap()).unwrap();
}
