//! Selectors: locate an expression inside a real function by a stable syntactic key.
use crate::index::FnInfo;
use syn::spanned::Spanned;
use syn::visit::Visit;

#[derive(Debug, Clone)]
pub enum Sel {
    Let(String, usize),
    Assign(String, usize),
    IfCond(String, usize),
    LetIfCond(String, usize),
    /// scrut~<ident>#k: the scrutinee of the k-th `match` whose scrutinee mentions the identifier
    Scrut(String, usize),
    /// ifguard:<ident>#k: the condition of the k-th `if` whose then-branch mentions the identifier (e.g. a callee)
    IfGuard(String, usize),
    Arg { recv: Option<String>, method: String, k: usize, i: usize },
}

pub fn parse_sel(s: &str) -> Result<Sel, String> {
    fn split_k(s: &str) -> (String, usize) {
        match s.rsplit_once('#') {
            Some((a, k)) => (a.to_string(), k.parse().unwrap_or(0)),
            None => (s.to_string(), 0),
        }
    }
    if let Some(r) = s.strip_prefix("let:") {
        let (n, k) = split_k(r);
        return Ok(Sel::Let(n, k));
    }
    if let Some(r) = s.strip_prefix("assign:") {
        let (n, k) = split_k(r);
        return Ok(Sel::Assign(n, k));
    }
    if let Some(r) = s.strip_prefix("letifcond:") {
        let (n, k) = split_k(r);
        return Ok(Sel::LetIfCond(n, k));
    }
    if let Some(r) = s.strip_prefix("ifguard:") {
        let (n, k) = split_k(r);
        return Ok(Sel::IfGuard(n, k));
    }
    if let Some(r) = s.strip_prefix("scrut~") {
        let (n, k) = split_k(r);
        return Ok(Sel::Scrut(n, k));
    }
    if let Some(r) = s.strip_prefix("ifcond~") {
        let (n, k) = split_k(r);
        return Ok(Sel::IfCond(n, k));
    }
    if let Some(r) = s.strip_prefix("arg:") {
        // RECV.METHOD#K:I   or  PATH::FN#K:I
        let (head, i) = r.rsplit_once(':').ok_or("arg selector needs :I")?;
        // careful: PATH::FN contains "::" — rsplit_once(':') above splits at the last ':' which is the :I
        let i: usize = i.parse().map_err(|_| "bad arg index")?;
        let (nm, k) = split_k(head);
        if let Some((recv, m)) = nm.split_once('.') {
            return Ok(Sel::Arg { recv: Some(recv.to_string()), method: m.to_string(), k, i });
        }
        return Ok(Sel::Arg { recv: None, method: nm, k, i });
    }
    Err(format!("unknown selector `{}`", s))
}

fn pat_ident(p: &syn::Pat) -> Option<String> {
    match p {
        syn::Pat::Ident(i) => Some(i.ident.to_string()),
        syn::Pat::Type(t) => pat_ident(&t.pat),
        _ => None,
    }
}

pub fn last_ident(e: &syn::Expr) -> Option<String> {
    match e {
        syn::Expr::Path(p) => p.path.segments.last().map(|s| s.ident.to_string()),
        syn::Expr::Field(f) => match &f.member {
            syn::Member::Named(i) => Some(i.to_string()),
            _ => None,
        },
        syn::Expr::Paren(p) => last_ident(&p.expr),
        syn::Expr::Reference(r) => last_ident(&r.expr),
        syn::Expr::Unary(u) => last_ident(&u.expr),
        _ => None,
    }
}

fn mentions_ident(ts: proc_macro2::TokenStream, id: &str) -> bool {
    for t in ts {
        match t {
            proc_macro2::TokenTree::Ident(i) => {
                if i == id {
                    return true;
                }
            }
            proc_macro2::TokenTree::Group(g) => {
                if mentions_ident(g.stream(), id) {
                    return true;
                }
            }
            _ => {}
        }
    }
    false
}

struct Finder<'a> {
    sel: &'a Sel,
    hits: Vec<(syn::Expr, usize)>,
}

impl<'a, 'ast> Visit<'ast> for Finder<'a> {
    fn visit_local(&mut self, l: &'ast syn::Local) {
        if let Sel::Let(name, _) = self.sel {
            if pat_ident(&l.pat).as_deref() == Some(name.as_str()) {
                if let Some(init) = &l.init {
                    self.hits.push(((*init.expr).clone(), l.span().start().line));
                }
            }
        }
        if let Sel::LetIfCond(name, _) = self.sel {
            if pat_ident(&l.pat).as_deref() == Some(name.as_str()) {
                if let Some(init) = &l.init {
                    if let syn::Expr::If(i) = &*init.expr {
                        self.hits.push(((*i.cond).clone(), l.span().start().line));
                    }
                }
            }
        }
        syn::visit::visit_local(self, l);
    }
    fn visit_expr_assign(&mut self, a: &'ast syn::ExprAssign) {
        if let Sel::Assign(name, _) = self.sel {
            if let syn::Expr::Path(p) = &*a.left {
                if p.path.is_ident(name.as_str()) {
                    self.hits.push(((*a.right).clone(), a.span().start().line));
                }
            }
        }
        syn::visit::visit_expr_assign(self, a);
    }
    fn visit_expr_if(&mut self, i: &'ast syn::ExprIf) {
        if let Sel::IfCond(id, _) = self.sel {
            use quote::ToTokens;
            if mentions_ident(i.cond.to_token_stream(), id) {
                self.hits.push(((*i.cond).clone(), i.span().start().line));
            }
        }
        if let Sel::IfGuard(id, _) = self.sel {
            use quote::ToTokens;
            if mentions_ident(i.then_branch.to_token_stream(), id) {
                self.hits.push(((*i.cond).clone(), i.span().start().line));
            }
        }
        syn::visit::visit_expr_if(self, i);
    }
    fn visit_expr_match(&mut self, m: &'ast syn::ExprMatch) {
        if let Sel::Scrut(id, _) = self.sel {
            use quote::ToTokens;
            if mentions_ident(m.expr.to_token_stream(), id) {
                self.hits.push(((*m.expr).clone(), m.span().start().line));
            }
        }
        syn::visit::visit_expr_match(self, m);
    }
    fn visit_expr_method_call(&mut self, m: &'ast syn::ExprMethodCall) {
        if let Sel::Arg { recv: Some(recv), method, i, .. } = self.sel {
            if m.method == method.as_str() && last_ident(&m.receiver).as_deref() == Some(recv.as_str()) {
                if let Some(a) = m.args.iter().nth(*i) {
                    self.hits.push((a.clone(), m.span().start().line));
                }
            }
        }
        syn::visit::visit_expr_method_call(self, m);
    }
    fn visit_expr_call(&mut self, c: &'ast syn::ExprCall) {
        if let Sel::Arg { recv: None, method, i, .. } = self.sel {
            if let syn::Expr::Path(p) = &*c.func {
                let segs: Vec<String> = p.path.segments.iter().map(|s| s.ident.to_string()).collect();
                let joined2 = if segs.len() >= 2 {
                    format!("{}::{}", segs[segs.len() - 2], segs[segs.len() - 1])
                } else {
                    segs.join("::")
                };
                if &joined2 == method || segs.last() == Some(method) {
                    if let Some(a) = c.args.iter().nth(*i) {
                        self.hits.push((a.clone(), c.span().start().line));
                    }
                }
            }
        }
        syn::visit::visit_expr_call(self, c);
    }
}

pub fn select(f: &FnInfo, sel: &Sel) -> Result<(syn::Expr, usize), String> {
    let mut fd = Finder { sel, hits: vec![] };
    fd.visit_block(&f.block);
    let k = match sel {
        Sel::Let(_, k) | Sel::Assign(_, k) | Sel::IfCond(_, k) | Sel::LetIfCond(_, k) | Sel::Scrut(_, k) | Sel::IfGuard(_, k) => *k,
        Sel::Arg { k, .. } => *k,
    };
    fd.hits
        .into_iter()
        .nth(k)
        .ok_or_else(|| format!("lost anchor: selector {:?} has no match #{} in {}", sel, k, f.key))
}
