//! Search for a failing input after an OPS/BINS/RBTREE obligation failed (Verus gives no counterexample).
//! Drives the real flurry::HashMap and std's HashMap with the same seeded random operation sequences under hashers that
//! force collisions (list bins and, with enough colliding keys in a table of 64+, tree bins), compares every return value,
//! len() after every step and the full contents every few steps.  exit 1 = divergence found (the trace is printed),
//! exit 0 = none found within the budget.  This is a replay aid, not the check: the verdict comes from the verifier.
//! args: [sequences (default 400)] [ops per sequence (default 300)]
use std::collections::HashMap as StdMap;
use std::hash::{BuildHasher, Hasher};
use std::panic::{catch_unwind, AssertUnwindSafe};

#[derive(Clone, Copy)]
struct ModBuild(u64);
struct ModHasher(u64, u64);
impl BuildHasher for ModBuild {
    type Hasher = ModHasher;
    fn build_hasher(&self) -> ModHasher { ModHasher(self.0, 0) }
}
impl Hasher for ModHasher {
    fn finish(&self) -> u64 { if self.0 == 0 { self.1 } else { self.1 % self.0 } }
    fn write(&mut self, bytes: &[u8]) { for b in bytes { self.1 = (self.1 << 8) | *b as u64; } }
    fn write_u64(&mut self, i: u64) { self.1 = i; }
}

struct Rng(u64);
impl Rng {
    fn next(&mut self) -> u64 { let mut x = self.0; x ^= x << 13; x ^= x >> 7; x ^= x << 17; self.0 = x; x }
    fn below(&mut self, n: u64) -> u64 { self.next() % n }
}

fn contents(m: &flurry::HashMap<u64, u64, ModBuild>) -> Vec<(u64, u64)> {
    let g = m.guard();
    let mut v: Vec<(u64, u64)> = m.iter(&g).map(|(k, v)| (*k, *v)).collect();
    v.sort();
    v
}

fn run(seed: u64, modulus: u64, keys: u64, ops: usize, cap: usize) -> Result<(), String> {
    let mut rng = Rng(seed.wrapping_mul(0x9E3779B97F4A7C15) | 1);
    let m: flurry::HashMap<u64, u64, ModBuild> = if cap == 0 { flurry::HashMap::with_hasher(ModBuild(modulus)) } else { flurry::HashMap::with_capacity_and_hasher(cap, ModBuild(modulus)) };
    let mut r: StdMap<u64, u64> = StdMap::new();
    let mut trace: Vec<String> = vec![];
    let mut next_val = 1u64;
    for step in 0..ops {
        let k = rng.below(keys);
        let op = rng.below(100);
        let g = m.guard();
        let what;
        let ok = match op {
            0..=34 => { let v = next_val; next_val += 1; what = format!("insert({k},{v})"); m.insert(k, v, &g).copied() == r.insert(k, v) }
            35..=44 => {
                let v = next_val; next_val += 1; what = format!("try_insert({k},{v})");
                let exp = r.get(&k).copied();
                let got = m.try_insert(k, v, &g);
                match (got, exp) {
                    (Ok(nv), None) => { r.insert(k, v); *nv == v }
                    (Err(e), Some(cur)) => *e.current == cur && e.not_inserted == v,
                    _ => false,
                }
            }
            45..=64 => { what = format!("remove({k})"); m.remove(&k, &g).copied() == r.remove(&k) }
            65..=69 => { what = format!("remove_entry({k})"); m.remove_entry(&k, &g).map(|(a, b)| (*a, *b)) == r.remove_entry(&k) }
            70..=79 => {
                what = format!("compute_if_present({k}, v -> if v%3==0 None else v+1000)");
                let got = m.compute_if_present(&k, |_, v| if *v % 3 == 0 { None } else { Some(*v + 1000) }, &g).copied();
                let exp = match r.get(&k).copied() { None => None, Some(v) if v % 3 == 0 => { r.remove(&k); None } Some(v) => { r.insert(k, v + 1000); Some(v + 1000) } };
                got == exp
            }
            80..=87 => { what = format!("get({k})"); m.get(&k, &g).copied() == r.get(&k).copied() && m.contains_key(&k, &g) == r.contains_key(&k) && m.get_key_value(&k, &g).map(|(a, b)| (*a, *b)) == r.get_key_value(&k).map(|(a, b)| (*a, *b)) }
            88..=91 => { let p = rng.below(4); what = format!("retain(v % 4 != {p})"); m.retain(|_, v| *v % 4 != p, &g); r.retain(|_, v| *v % 4 != p); true }
            92..=94 => { let p = rng.below(4); what = format!("retain_force(k % 4 != {p})"); m.retain_force(|k, _| *k % 4 != p, &g); r.retain(|k, _| *k % 4 != p); true }
            95 => { what = "clear()".to_string(); m.clear(&g); r.clear(); true }
            96..=97 => { let n = rng.below(40) as usize; what = format!("reserve({n})"); m.reserve(n, &g); true }
            _ => { what = "clone() == self".to_string(); let c = m.clone(); contents(&c) == contents(&m) }
        };
        drop(g);
        trace.push(what);
        let lens = m.len() == r.len() && m.is_empty() == r.is_empty();
        let full = if step % 7 == 0 || step + 1 == ops { let mut e: Vec<(u64, u64)> = r.iter().map(|(k, v)| (*k, *v)).collect(); e.sort(); contents(&m) == e } else { true };
        if !(ok && lens && full) {
            let from = trace.len().saturating_sub(60);
            return Err(format!("DIVERGENCE at step {step} (seed {seed}, hash = key mod {modulus}, keys < {keys}, capacity {cap}): return value ok={ok} len/is_empty ok={lens} (flurry {} vs std {}) contents ok={full}\n  last operations: {}",
                m.len(), r.len(), trace[from..].join("; ")));
        }
    }
    Ok(())
}

fn main() {
    let a: Vec<String> = std::env::args().collect();
    let seqs: u64 = a.get(1).and_then(|s| s.parse().ok()).unwrap_or(400);
    let ops: usize = a.get(2).and_then(|s| s.parse().ok()).unwrap_or(300);
    std::panic::set_hook(Box::new(|_| {}));
    // (modulus, key range, initial capacity): 1 = everything collides; 0 = identity hash
    let shapes: [(u64, u64, usize); 8] = [(1, 12, 0), (1, 40, 64), (1, 200, 128), (3, 60, 64), (17, 120, 0), (0, 64, 0), (0, 300, 1), (64, 400, 64)];
    for s in 0..seqs {
        let (md, keys, cap) = shapes[(s % shapes.len() as u64) as usize];
        let res = catch_unwind(AssertUnwindSafe(|| run(s + 1, md, keys, ops, cap)));
        match res {
            Ok(Ok(())) => {}
            Ok(Err(msg)) => { println!("{msg}"); std::process::exit(1); }
            Err(_) => { println!("PANIC inside an operation (seed {}, hash = key mod {md}, keys < {keys}, capacity {cap})", s + 1); std::process::exit(1); }
        }
    }
    println!("no divergence from std::collections::HashMap in {seqs} sequences of {ops} operations");
}
