//! Replay for C03 (finding F1), to be run under `cargo +nightly miri run --bin f1_from_iter`:
//! collect() with an iterator whose size hint is unknown and keys that collide in a 2-bin table.
use std::hash::{BuildHasherDefault, Hasher};
#[derive(Default)]
struct Ident(u64);
impl Hasher for Ident {
    fn finish(&self) -> u64 { self.0 }
    fn write(&mut self, b: &[u8]) { for (i, x) in b.iter().enumerate().take(8) { self.0 |= (*x as u64) << (8 * i); } }
    fn write_u64(&mut self, x: u64) { self.0 = x; }
}
fn main() {
    let m: flurry::HashMap<u64, u64, BuildHasherDefault<Ident>> =
        [0u64, 2].into_iter().filter(|_| true).map(|k| (k, k)).collect();
    let g = m.guard();
    assert_eq!(m.get(&0, &g), Some(&0));
    assert_eq!(m.get(&2, &g), Some(&2));
    println!("ok");
}
