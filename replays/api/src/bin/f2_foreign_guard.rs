//! Replay for C09 (finding F2): every guard-taking entry point must panic on a foreign guard.
//! Prints one line per entry point: `<name> rejected` or `<name> ACCEPTED`; exit 1 if any accepted.
use std::panic::{catch_unwind, AssertUnwindSafe};
fn main() {
    std::panic::set_hook(Box::new(|_| {}));
    let evil = seize::Collector::new();
    let mut bad = 0;
    macro_rules! probe {
        ($name:expr, $body:expr) => {{
            let map: flurry::HashMap<u64, u64> = flurry::HashMap::new();
            {
                let g = map.guard();
                for k in 0..4u64 { map.insert(k, k, &g); }
            }
            let guard = evil.enter();
            let r = catch_unwind(AssertUnwindSafe(|| { let map = &map; let guard = &guard; $body(map, guard); }));
            let untouched = { let g = map.guard(); map.len() == 4 && (0..4u64).all(|k| map.get(&k, &g) == Some(&k)) };
            if r.is_err() && untouched { println!("{} rejected", $name); } else { println!("{} ACCEPTED (returned normally: {}, map untouched: {})", $name, r.is_ok(), untouched); bad += 1; }
        }};
    }
    probe!("HashMap::clear", |m: &flurry::HashMap<u64, u64>, g| m.clear(g));
    probe!("HashMap::try_insert", |m: &flurry::HashMap<u64, u64>, g| { let _ = m.try_insert(9, 9, g); });
    probe!("HashMap::insert", |m: &flurry::HashMap<u64, u64>, g| { let _ = m.insert(9, 9, g); });
    probe!("HashMap::get", |m: &flurry::HashMap<u64, u64>, g| { let _ = m.get(&1, g); });
    probe!("HashMap::remove", |m: &flurry::HashMap<u64, u64>, g| { let _ = m.remove(&1, g); });
    probe!("HashMapRef::clear", |m: &flurry::HashMap<u64, u64>, g| m.with_guard(g).clear());
    probe!("HashMapRef::try_insert", |m: &flurry::HashMap<u64, u64>, g| { let _ = m.with_guard(g).try_insert(9, 9); });
    std::process::exit(if bad > 0 { 1 } else { 0 });
}
