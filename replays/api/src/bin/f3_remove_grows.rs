//! Replay for C14 (finding F3): removing an entry must never grow the table.
//! args: <initial entries> (default 11).  16 bins hold 11 entries below the threshold 12.
fn main() {
    let n: u64 = std::env::args().nth(1).and_then(|s| s.parse().ok()).unwrap_or(11);
    let map: flurry::HashMap<u64, u64> = flurry::HashMap::new();
    let g = map.guard();
    for k in 0..n { map.insert(k, k, &g); }
    let before = map.__verif_inspect(&g);
    let r = map.compute_if_present(&0, |_, _| None, &g);
    assert!(r.is_none());
    let after = map.__verif_inspect(&g);
    println!("before: len={} size_ctl={} count={}   after removal: len={} size_ctl={} count={}", before.0, before.1, before.2, after.0, after.1, after.2);
    if after.0 > before.0 { println!("TABLE GREW ON REMOVAL"); std::process::exit(1); }
}
