//! Replay for C19 (finding F4): deserialising a well-formed document that repeats a key must not panic.
fn main() {
    std::panic::set_hook(Box::new(|_| {}));
    let doc = std::env::args().nth(1).unwrap_or_else(|| "{\"1\":1,\"1\":2}".to_string());
    let r = std::panic::catch_unwind(|| serde_json::from_str::<flurry::HashMap<u8, u8>>(&doc).map(|m| m.len()));
    match r {
        Ok(Ok(n)) => println!("ok: {} entries", n),
        Ok(Err(e)) => println!("error value: {}", e),
        Err(_) => { println!("PANICKED on {}", doc); std::process::exit(1); }
    }
}
