#!/bin/bash
# run every claimed check (quick tier by default) on the current /repo tree; used before committing evidence
tier=${1:-quick}
cd /verif
fail=0
for p in $(python3 -c "import json;print(' '.join(c['property_id'] for c in json.load(open('MANIFEST.json'))['checks']))"); do
  out=$(./check $p $tier 2>&1 | tail -1); rc=$?
  echo "$p: $out"
  case "$out" in OK*) ;; *) fail=1;; esac
done
exit $fail
