// ARITH unit, Kani rendering — same directives as arith.vrs; plain Rust.  Every harness is loop-free over the
// full input domain (a complete proof, not a bounded one) except `std_leading_zeros`, whose reference
// implementation is a 64-step loop unwound completely (unwinding assertion on).
// Purpose: (1) second back end for the contracts, (2) concrete counterexamples for replay,
// (3) checks the std specifications that arith.vrs only assumes.
#![allow(dead_code, unused_variables, unused_mut, unused_parens, clippy::all)]
use std::cmp;

//@CONSTS

fn at_load(c: &mut isize) -> isize { *c }
fn at_fetch_add(c: &mut isize, a: isize) -> isize { let o = *c; *c = o.wrapping_add(a); o }
fn at_fetch_sub(c: &mut isize, a: isize) -> isize { let o = *c; *c = o.wrapping_sub(a); o }

pub fn resize_stamp(n: usize) -> isize {
    //@BODY HashMap::resize_stamp
}
pub fn load_factor(n: isize) -> isize {
    //@MACRO load_factor n
}
pub fn rs_add_count(n: usize) -> isize {
    //@EXPR HashMap::add_count let:rs
}
pub fn threshold_after_resize(n: usize) -> isize {
    //@EXPR HashMap::transfer arg:size_ctl.store#0:0
}
pub fn new_table_len(n: usize) -> usize {
    //@EXPR HashMap::transfer arg:Table::new#0:0
}
pub fn presize_cap(size: usize) -> usize {
    //@EXPR HashMap::presize let:requested_capacity
}
pub fn try_presize_cap(size: usize) -> isize {
    //@EXPR HashMap::try_presize let:requested_capacity
}
pub fn treeify_resizes_instead(n: usize) -> bool {
    //@EXPR HashMap::treeify_bin ifcond~MIN_TREEIFY_CAPACITY#0
}
pub fn try_presize_no_resize(size: usize, requested_capacity: isize, size_ctl: isize, current_capactity: usize) -> bool {
    //@EXPR HashMap::try_presize ifcond~MAXIMUM_CAPACITY#1
}
pub fn add_count_new(count: &mut isize, n: isize) -> isize {
    //@EXPR HashMap::add_count let:count#0
}
pub fn add_count_below_threshold(count: isize, sc: isize) -> bool {
    //@EXPR HashMap::add_count ifcond~count#0
}
pub fn claim(next_index: isize, stride: isize) -> isize {
    //@EXPR HashMap::transfer let:next_bound
}
pub fn stride_of(n: usize, ncpu: usize) -> isize {
    let stride =
        //@EXPR HashMap::transfer let:stride#0
    ;
    let stride =
        //@EXPR HashMap::transfer let:stride#1
    ;
    stride
}
pub fn not_last_resizer(sc: isize, n: usize) -> bool {
    //@EXPR HashMap::transfer ifcond~resize_stamp#0
}
pub fn bini(bins_len: usize, hash: u64) -> usize {
    //@BODY Table::bini
}
pub fn run_bit_walk(hash: u64, n: usize) -> u64 {
    //@EXPR HashMap::transfer let:b#0
}
pub fn split_dest_high_list(i: usize, n: usize) -> usize {
    //@EXPR HashMap::transfer arg:next_table.store_bin#1:0
}

pub fn is_pow2(x: u64) -> bool { x != 0 && x == (1u64 << x.trailing_zeros()) }
fn lz64_ref(mut i: u64) -> u32 { let mut r = 64u32; while i != 0 { i /= 2; r -= 1; } r }

/// Source of harness inputs: symbolic under Kani, recorded counterexample values in a native replay.
pub struct Src { pub vals: Vec<u64>, pub pos: usize }
impl Src {
    fn next(&mut self) -> u64 { let v = self.vals.get(self.pos).copied().unwrap_or(0); self.pos += 1; v }
    #[cfg(kani)] pub fn usize(&mut self) -> usize { kani::any() }
    #[cfg(not(kani))] pub fn usize(&mut self) -> usize { self.next() as usize }
    #[cfg(kani)] pub fn isize(&mut self) -> isize { kani::any() }
    #[cfg(not(kani))] pub fn isize(&mut self) -> isize { self.next() as isize }
    #[cfg(kani)] pub fn u64(&mut self) -> u64 { kani::any() }
    #[cfg(not(kani))] pub fn u64(&mut self) -> u64 { self.next() }
    #[cfg(kani)] pub fn u32(&mut self) -> u32 { kani::any() }
    #[cfg(not(kani))] pub fn u32(&mut self) -> u32 { self.next() as u32 }
    #[cfg(kani)] pub fn assume(&mut self, c: bool) -> bool { kani::assume(c); true }
    #[cfg(not(kani))] pub fn assume(&mut self, c: bool) -> bool { c }
}

// ---- std functions whose specifications arith.vrs assumes
//# props=C10
pub fn h_std_leading_zeros(s: &mut Src) { let n = s.usize(); assert!(n.leading_zeros() == lz64_ref(n as u64)); }
//# props=C14
pub fn h_std_next_power_of_two(s: &mut Src) {
    let n = s.usize();
    if !s.assume(n <= 0x4000_0000_0000_0000) { return; }
    let r = n.next_power_of_two();
    assert!(is_pow2(r as u64) && r <= 0x4000_0000_0000_0000);
    assert!(r >= n);
    assert!(n <= 1 || r / 2 < n);
    assert!(n > 1 || r == 1);
}
//# props=C14
pub fn h_std_abs(s: &mut Src) { let n = s.isize(); if !s.assume(n > isize::MIN) { return; } let r = n.abs(); assert!(if n < 0 { r == -n } else { r == n }); }
//# props=C14,C10
pub fn h_std_cmp_min_max(s: &mut Src) { let a = s.usize(); let b = s.usize(); assert!(std::cmp::min(a, b) == a.min(b)); assert!(std::cmp::max(a, b) == a.max(b)); }

// ---- contracts (same statements as arith.vrs)
//# props=C10
pub fn h_resize_stamp(s: &mut Src) {
    let n = s.usize();
    let r = resize_stamp(n);
    assert!(r == n.leading_zeros() as isize + 0x8000_0000);
    let rs = rs_add_count(n);
    assert!(rs < 0 && rs.checked_add(MAX_RESIZERS).map_or(false, |x| x < 0));
    assert!(rs as i128 == (r as i128 - 0x1_0000_0000) * 0x1_0000_0000);
}
//# props=C10
pub fn h_generations_disjoint(s: &mut Src) {
    let k1 = s.u32(); let k2 = s.u32();
    if !s.assume(k1 < k2 && k2 <= 30) { return; }
    let h1 = s.isize(); let h2 = s.isize();
    if !s.assume(0 <= h1 && h1 <= 0xffff_ffff && 0 <= h2 && h2 <= 0xffff_ffff) { return; }
    assert!(rs_add_count(1usize << k1).wrapping_add(h1) != rs_add_count(1usize << k2).wrapping_add(h2));
    assert!(rs_add_count(1usize << k1).checked_add(h1).map_or(false, |x| x < 0));
}
//# props=C14,C10
pub fn h_load_factor(s: &mut Src) { let n = s.isize(); if !s.assume(0 <= n && n <= 0x4000_0000) { return; } let r = load_factor(n); assert!(r == n - n / 4 && 4 * r >= 3 * n); }
//# props=C10,C14
pub fn h_threshold_after_resize(s: &mut Src) { let n = s.usize(); if !s.assume(1 <= n && n <= 0x2000_0000) { return; } let r = threshold_after_resize(n); assert!(r as i128 == 2 * n as i128 - (n / 2) as i128); assert!(n % 2 != 0 || 4 * r as i128 == 3 * (2 * n as i128)); }
//# props=C10,C14
pub fn h_new_table_len(s: &mut Src) { let n = s.usize(); if !s.assume(1 <= n && n <= 0x2000_0000) { return; } let r = new_table_len(n); assert!(r as u128 == 2 * n as u128); assert!(!is_pow2(n as u64) || is_pow2(r as u64)); }
fn cap_ok(size: usize, r: usize) -> bool {
    is_pow2(r as u64) && r <= 0x4000_0000 && (size >= 0x3000_0000 || r - r / 4 > size) && (size < 0x2000_0000 || r == 0x4000_0000)
}
//# props=C05,C14
pub fn h_presize_cap_pow2(s: &mut Src) { let size = s.usize(); let r = presize_cap(size); assert!(is_pow2(r as u64) && r <= 0x4000_0000); }
//# props=C05,C14
pub fn h_try_presize_cap_pow2(s: &mut Src) { let size = s.usize(); let r = try_presize_cap(size); assert!(r >= 0 && is_pow2(r as u64) && r <= 0x4000_0000); }
//# props=C14,C06
pub fn h_treeify_resizes_instead(s: &mut Src) { let n = s.usize(); assert!(treeify_resizes_instead(n) == (n < 64)); }
//# props=C14
pub fn h_try_presize_no_resize(s: &mut Src) { let size = s.usize(); let rc = s.isize(); let sc = s.isize(); let cc = s.usize(); assert!(try_presize_no_resize(size, rc, sc, cc) == (rc <= sc || cc >= 0x4000_0000)); }
//# props=C14
pub fn h_presize_cap(s: &mut Src) { let size = s.usize(); assert!(cap_ok(size, presize_cap(size))); }
//# props=C14
pub fn h_try_presize_cap(s: &mut Src) { let size = s.usize(); let r = try_presize_cap(size); assert!(r >= 0 && cap_ok(size, r as usize)); }
//# props=C14,C05
pub fn h_add_count_new(s: &mut Src) {
    let c0 = s.isize(); let n = s.isize();
    if !s.assume(-0x4000_0000_0000 <= c0 && c0 <= 0x4000_0000_0000 && -0x4000_0000_0000 <= n && n <= 0x4000_0000_0000) { return; }
    let mut c = c0;
    let r = add_count_new(&mut c, n);
    assert!(c == c0 + n);
    assert!(r == c);
}
//# props=C14
pub fn h_removal_never_grows(s: &mut Src) {
    // composition on the real snippets: a removal at or below the threshold never passes the growth test
    let c0 = s.isize(); let n = s.isize(); let sc = s.isize();
    if !s.assume(0 <= c0 && c0 <= 0x4000_0000_0000 && -0x4000_0000_0000 <= n && n < 0 && c0 <= sc) { return; }
    let mut c = c0;
    let r = add_count_new(&mut c, n);
    assert!(add_count_below_threshold(r, sc));
}
//# props=C10
pub fn h_claim(s: &mut Src) {
    let i = s.isize(); let st = s.isize();
    if !s.assume(i > 0 && st >= 16) { return; }
    let b = claim(i, st);
    assert!(0 <= b && b < i && i - b <= st && (b == 0 || i - b == st));
}
//# props=C10
pub fn h_stride(s: &mut Src) { let n = s.usize(); let ncpu = s.usize(); if !s.assume(n <= 0x4000_0000) { return; } assert!(stride_of(n, ncpu) >= 16); }
//# props=C10
pub fn h_not_last_resizer(s: &mut Src) {
    let sc = s.isize(); let n = s.usize();
    if !s.assume(sc > isize::MIN + 2) { return; }
    assert!(not_last_resizer(sc, n) == (sc - 2 != rs_add_count(n)));
}
//# props=C05,C02
pub fn h_bini_split(s: &mut Src) {
    let k = s.u32(); if !s.assume(k <= 29) { return; }
    let n = 1usize << k; let hash = s.u64();
    let i = bini(n, hash);
    assert!(i < n && i as u64 == hash % n as u64);
    let j = bini(2 * n, hash);
    if run_bit_walk(hash, n) == 0 { assert!(j == i); } else { assert!(j == split_dest_high_list(i, n)); }
}

pub const HARNESSES: &[(&str, fn(&mut Src))] = &[
    ("std_leading_zeros", h_std_leading_zeros), ("std_next_power_of_two", h_std_next_power_of_two), ("std_abs", h_std_abs),
    ("std_cmp_min_max", h_std_cmp_min_max), ("resize_stamp", h_resize_stamp), ("generations_disjoint", h_generations_disjoint),
    ("load_factor", h_load_factor), ("threshold_after_resize", h_threshold_after_resize), ("new_table_len", h_new_table_len),
    ("treeify_resizes_instead", h_treeify_resizes_instead), ("try_presize_no_resize", h_try_presize_no_resize), ("presize_cap", h_presize_cap), ("presize_cap_pow2", h_presize_cap_pow2), ("try_presize_cap_pow2", h_try_presize_cap_pow2), ("try_presize_cap", h_try_presize_cap), ("add_count_new", h_add_count_new),
    ("removal_never_grows", h_removal_never_grows), ("claim", h_claim), ("stride", h_stride),
    ("not_last_resizer", h_not_last_resizer), ("bini_split", h_bini_split),
];

#[cfg(kani)]
mod harness {
    use super::*;
    fn src() -> Src { Src { vals: Vec::new(), pos: 0 } }
    #[kani::proof] #[kani::unwind(66)] fn std_leading_zeros() { h_std_leading_zeros(&mut src()) }
    #[kani::proof] fn std_next_power_of_two() { h_std_next_power_of_two(&mut src()) }
    #[kani::proof] fn std_abs() { h_std_abs(&mut src()) }
    #[kani::proof] fn std_cmp_min_max() { h_std_cmp_min_max(&mut src()) }
    #[kani::proof] fn resize_stamp() { h_resize_stamp(&mut src()) }
    #[kani::proof] fn generations_disjoint() { h_generations_disjoint(&mut src()) }
    #[kani::proof] fn load_factor() { h_load_factor(&mut src()) }
    #[kani::proof] fn threshold_after_resize() { h_threshold_after_resize(&mut src()) }
    #[kani::proof] fn new_table_len() { h_new_table_len(&mut src()) }
    #[kani::proof] fn presize_cap() { h_presize_cap(&mut src()) }
    #[kani::proof] fn try_presize_cap() { h_try_presize_cap(&mut src()) }
    #[kani::proof] fn presize_cap_pow2() { h_presize_cap_pow2(&mut src()) }
    #[kani::proof] fn try_presize_cap_pow2() { h_try_presize_cap_pow2(&mut src()) }
    #[kani::proof] fn add_count_new() { h_add_count_new(&mut src()) }
    #[kani::proof] fn treeify_resizes_instead() { h_treeify_resizes_instead(&mut src()) }
    #[kani::proof] fn try_presize_no_resize() { h_try_presize_no_resize(&mut src()) }
    #[kani::proof] fn removal_never_grows() { h_removal_never_grows(&mut src()) }
    #[kani::proof] fn claim() { h_claim(&mut src()) }
    #[kani::proof] fn stride() { h_stride(&mut src()) }
    #[kani::proof] fn not_last_resizer() { h_not_last_resizer(&mut src()) }
    #[kani::proof] fn bini_split() { h_bini_split(&mut src()) }
}
