#!/bin/bash
# developer helper: tools_mut.sh "<sed expr>" <file> <prop...>   applies a one-off edit to /repo, runs checks, reverts
expr="$1"; file="$2"; shift 2
cd /repo && sed -i "$expr" "$file" && git diff --stat | tail -1
if ! cargo build --offline 2>&1 | tail -1 | grep -q Finished; then echo "MUTANT DOES NOT COMPILE"; fi
cd /verif
rm -rf /tmp/evidence.bak && cp -r /verif/evidence /tmp/evidence.bak
for p in "$@"; do ./check $p quick 2>&1 | grep -E "^(VIOLATION|OK|UNDECIDED|FAILED|KNOWN)" | head -6; echo "  -> exit=$?"; done
git -C /repo checkout -- . 
rm -rf /verif/evidence && cp -r /tmp/evidence.bak /verif/evidence
