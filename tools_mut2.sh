#!/bin/bash
# developer helper: tools_mut2.sh "<sed expr>" <file> <prop...>   one-off edit on a SCRATCH copy of /repo, runs checks there
expr="$1"; file="$2"; shift 2
B=/var/tmp/mutrun_$$; mkdir -p $B
rsync -a --exclude target --exclude .git /repo/ $B/repo/
sed -i "$expr" $B/repo/$file
diff -q /repo/$file $B/repo/$file >/dev/null && echo "NO CHANGE MADE"
for p in "$@"; do VERIF_REPO=$B/repo VERIF_GEN=$B/gen VERIF_OUT=$B/out VERIF_NESTED=1 /verif/check $p quick 2>&1 | grep -E "^(VIOLATION|OK|UNDECIDED|FAILED|KNOWN)" | head -6 | cut -c1-260; done
rm -rf $B
