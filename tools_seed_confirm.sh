#!/bin/bash
# developer helper: confirm a sub-agent's seeded change in its scratch worktree:
#   patch applies, crate builds, the pinned suite passes with it, the demo fails with it and passes without it.
# usage: tools_seed_confirm.sh <worktree> [extra cargo args for the demo, e.g. --features verif]
WT=$1; shift
cd $WT || exit 9
git checkout -q -- src Cargo.toml 2>/dev/null
git apply --check _seed/patch.diff || { echo "PATCH DOES NOT APPLY"; exit 1; }
[ -f tests/seed_demo.rs ] || cp _seed/seed_demo.rs tests/seed_demo.rs
echo "== demo on original"; timeout 900 cargo test --offline "$@" --test seed_demo 2>&1 | grep -E "^test result|FAILED|panicked" | head -5
git apply _seed/patch.diff
echo "== suite with change"; mv tests/seed_demo.rs /tmp/seed_demo_$$.rs; timeout 1200 cargo test --offline 2>&1 | grep -E "^test result" | awk '{p+=$4; f+=$6} END {print "passed="p" failed="f}'; mv /tmp/seed_demo_$$.rs tests/seed_demo.rs
echo "== demo with change"; timeout 900 cargo test --offline "$@" --test seed_demo 2>&1 | grep -E "^test result|FAILED|panicked" | head -8
git checkout -q -- src Cargo.toml
