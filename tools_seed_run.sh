#!/bin/bash
# developer helper: apply a seeded patch to /repo, run the named checks, revert.  usage: tools_seed_run.sh <patch> <prop>...
P=$1; shift
git -C /repo apply $P || { echo "patch does not apply to /repo"; exit 1; }
cd /verif
rm -rf /tmp/evidence.bak && cp -r /verif/evidence /tmp/evidence.bak
for p in "$@"; do ./check $p quick 2>&1 | grep -E "^(VIOLATION|OK|UNDECIDED|FAILED|KNOWN)" | head -8; done
git -C /repo checkout -- .
rm -rf /verif/evidence && cp -r /tmp/evidence.bak /verif/evidence
