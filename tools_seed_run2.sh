#!/bin/bash
# developer helper: run checks against a seeded patch on a SCRATCH copy of /repo (does not touch /repo, /verif/gen or /verif/evidence)
# usage: tools_seed_run2.sh <abs patch> <prop>...
P=$1; shift
B=/var/tmp/seedrun_$$; mkdir -p $B
rsync -a --exclude target --exclude .git /repo/ $B/repo/
patch -p1 --forward -s -d $B/repo -i $P || { echo "patch does not apply"; rm -rf $B; exit 1; }
for p in "$@"; do VERIF_REPO=$B/repo VERIF_GEN=$B/gen VERIF_OUT=$B/out VERIF_NESTED=1 /verif/check $p quick 2>&1 | grep -E "^(VIOLATION|OK|UNDECIDED|FAILED|KNOWN)" | head -8 | sed "s#$B#<scratch>#g"; done
rm -rf $B
