#!/usr/bin/env python3
# developer helper: store a confirmed seeded change.  usage: tools_seed_store.py <id> <round> <verdict: caught|missed|undecided> <needs> <detail> [demo cargo args]
import sys,json,os,shutil
k,rnd,verdict,needs,detail=sys.argv[1:6]; feat=sys.argv[6] if len(sys.argv)>6 else ""
wt=f"/tmp/wt{rnd}_{k}"; d=f"/verif/seeded/{k}_subagent{rnd}"; os.makedirs(d,exist_ok=True)
for f in ['patch.diff','seed_demo.rs','notes.md']:
    if os.path.exists(f"{wt}/_seed/{f}"): shutil.copy(f"{wt}/_seed/{f}", d+'/'+f)
v={"caught":"VIOLATION (exit 1) = caught","missed":"OK (exit 0) = miss","undecided":"UNDECIDED (exit 2) = not detected"}[verdict]
m={"breaks_property":k,"origin":f"independent sub-agent (round {rnd}) given only the property text and a scratch worktree","needs_to_manifest":needs,
 "confirmed_by_me":{"cmd":f"tools_seed_confirm.sh {wt} {feat}".strip(),"output":"demo passes on the original; suite with change: passed=194 failed=0; demo fails with the change"},
 "check_result":{"cmd":f"git -C /repo apply patch.diff && ./check {k} quick && git -C /repo checkout -- .","verdict_when_delivered":v,"detail":detail}}
json.dump(m,open(d+'/meta.json','w'),indent=1)
os.system(f"git -C /repo worktree remove --force {wt}; git -C /repo worktree prune")
print("stored",d)
