#!/usr/bin/env python3
# developer helper: run verus on a generated unit and print failures by function
import sys,json,re,subprocess,os
GEN=os.environ.get('VERIF_GEN','/verif/gen')
unit=sys.argv[1]; extra=sys.argv[2:]
src=open(GEN+'/%s.rs'%unit).read().split('\n')
fnre=re.compile(r'^\s*(?:pub )?(?:proof |exec )?fn (\w+)')
def fn_at(l):
    for i in range(l-1,-1,-1):
        m=fnre.match(src[i])
        if m: return m.group(1)
p=subprocess.run(['verus','%s.rs'%unit,'--multiple-errors','30','--error-format=json']+extra,cwd=GEN,capture_output=True,text=True)
for line in p.stderr.split('\n'):
    line=line.strip()
    if not line.startswith('{'): continue
    d=json.loads(line)
    if d.get('level')!='error': continue
    sp=[s for s in d['spans'] if s['is_primary']]
    if not sp:
        print(d['message'][:200]); continue
    l=sp[0]['line_start']
    sec=[s for s in d['spans'] if not s['is_primary']]
    print(fn_at(l), '|', d['message'][:60], '|', l, src[l-1].strip()[:110], '|', (src[sec[0]['line_start']-1].strip()[:90] if sec else ''))
print(p.stdout[-300:] if 'verification results' in p.stdout else [l for l in p.stdout.split('\n') if 'verification' in l])
